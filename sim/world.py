"""
world.py - the simulated world: virtual clock, USB bus, serial links, fault plan.

Nothing here draws random numbers or reads a real clock.  Every decision the
world takes during a run is looked up *by position* in the scenario's fault
plan (op id, I/O ordinal) / (op id, request ordinal), so that executing a
scenario is a pure function of the scenario JSON and the code under /repo.
"""

import collections
import hashlib
import json

import serial                                   # the real pyserial (exception classes)
from serial.tools import list_ports as _list_ports
from serial.tools.list_ports_common import ListPortInfo

from board import make_device

US = 1000000          # microseconds per second (virtual time unit: integer us)

EXC_CLASSES = {
    'SerialException': serial.SerialException,
    'SerialTimeoutException': serial.SerialTimeoutException,
    'PortNotOpenError': serial.serialutil.PortNotOpenError,
    'OSError': OSError,
    'IOError': IOError,
    'RuntimeError': RuntimeError,
    # subclasses of the classes the code promises to contain
    'TimeoutError': TimeoutError,               # OSError subclass (socket:// and rfc2217:// ports raise it)
    'BrokenPipeError': BrokenPipeError,         # OSError subclass
    'RecursionError': RecursionError,           # RuntimeError subclass
}


def make_exc(name, what):
    """Exception instance for a fault directive.  'Class:ERRNO' builds an instance that carries an errno
    (OSError(errno.EINTR, ...)), as the operating system's own errors do."""
    import errno as _errno
    import os as _os
    if name.endswith('()'):
        return EXC_CLASSES[name[:-2]]()            # an instance built without any argument (empty message)
    if ':' in name:
        cname, ename = name.split(':', 1)
        cls = EXC_CLASSES[cname]
        code = getattr(_errno, ename)
        return cls(code, _os.strerror(code))
    cls = EXC_CLASSES[name]
    if cls is serial.serialutil.PortNotOpenError:
        return cls()
    return cls("simulated %s on %s" % (name, what))


class SimHang(BaseException):
    """The code under test blocked for ever (infinite timeout, nothing in flight)
    or exceeded the I/O cap of a run."""


class HarnessError(Exception):
    """The harness itself is in a state it cannot interpret."""


class Link:
    """One device on the bus together with its host-side receive queue."""

    def __init__(self, spec, index):
        self.spec = spec
        self.port = spec['port']
        self.device = make_device(spec)
        self.plugged = spec.get('plugged', True)
        self.open_fails = spec.get('open_fails', False)
        self.handle = None                     # SimSerial currently holding it open
        self.rx = collections.deque()          # [arrival_us, bytes]
        self.last_arrival = 0
        self.index = index

    # descriptors -------------------------------------------------------
    def port_info(self):
        info = ListPortInfo(self.port, skip_link_detection=True)
        desc, hwid = self.device.descriptors(self.port)
        info.description = desc
        info.hwid = hwid
        return info


class World:
    """Everything outside the code under test."""

    current = None                              # the world of the run in progress

    def __init__(self, scn):
        self.scn = scn
        self.now = 0
        self.links = []                         # bus order
        self.incarnations = []                  # every device that ever sat behind a port
        for i, spec in enumerate(scn['world']['boards']):
            self.links.append(Link(spec, i))
            self.incarnations.append((spec['port'], spec, self.links[-1].device))
        self.bus_raises = False                 # comports() raises TypeError
        self.exclusive = scn['world'].get('exclusive', True)
        self.lose_inflight_on_raise = scn['world'].get('lose_inflight', True)
        # fault plan, by position
        self.io_faults = {}
        self.reply_plans = {}
        for f in scn.get('faults', {}).get('io', []):
            self.io_faults[(f['at'][0], f['at'][1])] = f
        for f in scn.get('faults', {}).get('reply', []):
            self.reply_plans[(f['at'][0], f['at'][1])] = f
        # run state
        self.op_id = None
        self.op_rec = None
        self.io_ord = 0
        self.req_ord = 0
        self.events = []                        # global event log
        self.fired = collections.Counter()      # fault kind -> times actually applied
        self.monitors = []                      # violations raised by in-run monitors
        self.objects = []                       # EBB3-layer objects (for owner lookup)
        self.handles = []                       # every SimSerial ever created
        self.io_cap = scn.get('io_cap', 20000)
        self.total_io = 0
        self.empty_reads = 0
        self.enum_calls = 0

    # ------------------------------------------------------------------
    def link_by_port(self, port):
        for ln in self.links:
            if ln.port == port:
                return ln
        return None

    def begin_op(self, op_id, rec):
        self.op_id = op_id
        self.op_rec = rec
        self.io_ord = 0
        self.req_ord = 0

    def end_op(self):
        self.op_id = None
        self.op_rec = None

    def log(self, *ev):
        self.events.append((self.now, self.op_id) + ev)

    def digest(self):
        h = hashlib.sha256()
        for ev in self.events:
            h.update(json.dumps(ev, sort_keys=True, default=repr).encode())
            h.update(b'\n')
        return h.hexdigest()

    # ------------------------------------------------------------------
    def comports(self, include_links=False):
        """Replacement for serial.tools.list_ports.comports()."""
        self.enum_calls += 1
        self.log('enum', self.bus_raises)
        if self.op_rec is not None:
            self.op_rec['enums'] += 1
        if self.bus_raises:
            self.fired['bus_typeerror'] += 1
            raise TypeError("simulated: comports() iterator failed")
        infos = [ln.port_info() for ln in self.links if ln.plugged]
        style = self.scn['world'].get('enum', 'list')
        if style == 'iter':
            return iter(infos)                      # pyserial 2.x returned a one-shot generator
        if style == 'tuple':
            return tuple(infos)
        return infos

    # ------------------------------------------------------------------
    def next_io(self, handle, kind):
        """Account for one I/O call; apply a positional fault if one is planned.
        Returns the fault directive that fired (after raising if it must)."""
        self.io_ord += 1
        self.total_io += 1
        if self.total_io > self.io_cap:
            raise SimHang("I/O cap exceeded")
        rec = self.op_rec
        if rec is not None:
            rec['io'].append(kind)
        f = self.io_faults.get((self.op_id, self.io_ord))
        link = handle.link
        if f is not None:
            k = f['kind']
            if k == 'raise':
                self.fired['raise_on_' + kind + ':' + f['exc']] += 1
                self.log('io', handle.port, kind, 'raise', f['exc'])
                if rec is not None:
                    rec['faults_fired'].append(['raise', kind, f['exc'], self.io_ord])
                # a link that glitches loses what was in flight; an interrupted or would-block call (an
                # exception that carries EINTR / EAGAIN) loses nothing - the data is simply still on its way
                if self.lose_inflight_on_raise and link is not None and ':' not in f['exc']:
                    link.rx.clear()
                    link.last_arrival = self.now
                raise make_exc(f['exc'], kind)
            if k == 'unplug':
                self.fired['unplug'] += 1
                if rec is not None:
                    rec['faults_fired'].append(['unplug', kind, None, self.io_ord])
                if link is not None:
                    self.unplug(link)
        if link is not None and not link.plugged:
            self.log('io', handle.port, kind, 'raise', 'unplugged')
            if rec is not None:
                rec['faults_fired'].append(['dead', kind, 'unplugged', self.io_ord])
            raise serial.SerialException("simulated: device disconnected")
        return f

    def unplug(self, link):
        link.plugged = False
        link.rx.clear()
        link.last_arrival = self.now
        self.log('unplug', link.port)

    def replug(self, link):
        link.plugged = True
        link.device.power_on()
        link.rx.clear()
        link.last_arrival = self.now
        if link.handle is not None:
            # the old handle stays dead: a replugged device is a new OS device
            link.handle.dead = True
            link.handle = None
        self.log('replug', link.port)

    def replace_device(self, link, spec):
        spec = dict(spec)
        spec['port'] = link.port
        if link.handle is not None:
            link.handle.dead = True
            link.handle = None
        link.spec = spec
        link.device = make_device(spec)
        self.incarnations.append((link.port, spec, link.device))
        link.open_fails = spec.get('open_fails', False)
        link.plugged = spec.get('plugged', True)
        link.rx.clear()
        link.last_arrival = self.now
        self.log('replace_device', link.port, spec.get('kind', 'ebb'), spec.get('fw'))

    # ------------------------------------------------------------------
    def deliver(self, handle, data):
        """Host -> device bytes.  The device model parses complete requests and
        returns reply lines; the reply plan decides when / whether they arrive."""
        link = handle.link
        dev = link.device
        for req in dev.feed(data):
            self.req_ord += 1
            plan = self.reply_plans.get((self.op_id, self.req_ord))
            rec = self.op_rec
            T = handle.timeout_us()
            if plan is not None and plan.get('drop_request'):
                self.fired['drop_request'] += 1
                self.log('req', link.port, req, 'dropped')
                if rec is not None:
                    rec['requests'].append({'port': link.port, 'text': req, 'seen': False,
                                            'lines': [], 'sched': [], 'plan': plan, 't': self.now,
                                            'T': T})
                continue
            err = plan.get('err') if plan is not None else None
            if err is not None:
                self.fired['err_line:' + err] += 1
            lines = dev.handle(req, self.op_id, err)   # list of bytes (complete lines)
            nominal = list(lines)
            delays = list(plan.get('delay', [])) if plan is not None else []
            drop = plan.get('drop') if plan is not None else None
            stale = plan.get('stale') if plan is not None else None
            sched = []
            t_prev = max(self.now, link.last_arrival)
            if T is None:
                T_eff = US
            else:
                T_eff = T
            out = []
            if stale is not None:
                self.fired['wrong_name'] += 1
                out.append((stale['text'].encode('ascii'), stale.get('d', 0), 'stale'))
                if stale.get('instead'):
                    lines = []
            for j, ln in enumerate(lines):
                if drop == 'all' or (isinstance(drop, list) and j in drop):
                    self.fired['drop_reply'] += 1
                    continue
                d = delays[j] if j < len(delays) else 0
                if d:
                    self.fired['delay'] += 1
                out.append((ln, d, j))
            instant = self.scn['world'].get('reply_latency') == 'instant'
            for data_j, d, tag in out:
                # a prompt line normally lands half a timeout after the write; with 'instant' latency it is
                # already in the receive buffer when write() returns (a fast device, a slow host)
                base = 0 if (instant and d == 0) else T_eff // 2
                arrival = t_prev + d * T_eff + base
                if arrival < link.last_arrival:
                    arrival = link.last_arrival
                link.rx.append([arrival, data_j])
                link.last_arrival = arrival
                t_prev = arrival
                sched.append([arrival, data_j.decode('ascii', 'replace'), tag])
            self.log('req', link.port, req, [s[1] for s in sched])
            if rec is not None:
                rec['requests'].append({'port': link.port, 'text': req, 'seen': True,
                                        'lines': [x.decode('ascii', 'replace') for x in nominal],
                                        'sched': sched, 'plan': plan, 't': self.now, 'T': T,
                                        'reqno': dev.reqno})


class SimSerial:
    """pyserial-shaped port object living in the current World."""

    def __init__(self, port=None, baudrate=9600, bytesize=8, parity='N', stopbits=1,
                 timeout=None, xonxoff=False, rtscts=False, write_timeout=None,
                 dsrdtr=False, inter_byte_timeout=None, exclusive=None, **kwargs):
        self.w = World.current
        if self.w is None:
            raise HarnessError("SimSerial created outside a run")
        self.port = port
        self.name = port
        self.baudrate = baudrate
        self.timeout = timeout
        self.write_timeout = write_timeout
        self.is_open = False
        self.link = None
        self.dead = False
        self.closed_calls = 0
        self.id = len(self.w.handles)
        self.w.handles.append(self)
        if port is not None:
            self.open()

    # -- helpers -----------------------------------------------------------
    def timeout_us(self):
        if self.timeout is None:
            return None
        return int(round(float(self.timeout) * US))

    def _io(self, kind, need_open=True):
        w = self.w
        if World.current is not w:
            raise HarnessError("I/O on a port of a finished run")
        if need_open and not self.is_open:
            w.io_ord += 1
            if w.op_rec is not None:
                w.op_rec['io'].append(kind)
            w.log('io', self.port, kind, 'raise', 'PortNotOpenError')
            if w.op_rec is not None:
                w.op_rec['faults_fired'].append(['dead', kind, 'closed', w.io_ord])
            raise serial.serialutil.PortNotOpenError()
        if self.dead:
            w.io_ord += 1
            if w.op_rec is not None:
                w.op_rec['io'].append(kind)
            w.log('io', self.port, kind, 'raise', 'dead handle')
            if w.op_rec is not None:
                w.op_rec['faults_fired'].append(['dead', kind, 'removed', w.io_ord])
            raise serial.SerialException("simulated: handle of a removed device")
        return w.next_io(self, kind)

    # -- pyserial surface -----------------------------------------------------
    def open(self):
        w = self.w
        if self.is_open:
            raise serial.SerialException("Port is already open.")
        link = w.link_by_port(self.port)
        self.link = link
        if w.op_rec is not None:
            w.op_rec['open_attempts'].append(self.port)
        w.next_io(self, 'open') if link is not None else self._open_missing()
        if link.open_fails:
            w.fired['open_fails'] += 1
            w.log('io', self.port, 'open', 'raise', 'open_fails')
            code = link.spec.get('open_errno')
            if code:
                import os as _os
                raise serial.SerialException(code, "could not open port %s: %s" % (self.port, _os.strerror(code)))
            raise serial.SerialException("simulated: could not open port %s" % self.port)
        if link.handle is not None and link.handle.is_open and w.exclusive:
            w.fired['open_busy'] += 1
            w.log('io', self.port, 'open', 'raise', 'busy')
            raise serial.SerialException("simulated: port %s is busy" % self.port)
        link.handle = self
        self.is_open = True
        self.dead = False
        w.log('io', self.port, 'open', 'ok')
        if w.op_rec is not None:
            w.op_rec['opened'].append(self.port)

    def _open_missing(self):
        w = self.w
        w.io_ord += 1
        if w.op_rec is not None:
            w.op_rec['io'].append('open')
        w.log('io', self.port, 'open', 'raise', 'no such port')
        raise serial.SerialException("simulated: could not open port %r: no such device" % (self.port,))

    def close(self):
        w = self.w
        self.closed_calls += 1
        if w.op_rec is not None:
            w.op_rec['closed'].append(self.port)
        if not self.is_open:
            return
        # closing always releases the OS handle, even when the call then reports an error
        self.is_open = False
        link = self.link
        if link is not None and link.handle is self:
            link.handle = None
            # arrived-but-unread data is discarded with the handle; in-flight lines stay
            while link.rx and link.rx[0][0] <= w.now:
                link.rx.popleft()
        w.log('io', self.port, 'close', 'ok')
        w.next_io(self, 'close')

    def isOpen(self):
        return self.is_open

    def write(self, data):
        self._io('write')
        w = self.w
        data = bytes(data)
        # C04 monitor: bytes handed to a port by a latched / unconnected owner
        rec = w.op_rec
        if rec is not None:
            rec['wire'].setdefault(self.port, bytearray()).extend(data)
            rec['writes'].append([self.port, data.decode('latin-1')])
            rec['trace'].append(['w', self.port, data.decode('latin-1')])
            owner_state = []
            for k, obj in enumerate(w.objects):
                if obj is not None and getattr(obj, 'port', None) is self:
                    owner_state.append([k, getattr(obj, 'err', None) is not None])
            rec['write_owner'].append(owner_state)
        w.log('io', self.port, 'write', data.decode('latin-1'))
        w.deliver(self, data)
        return len(data)

    def flush(self):
        self._io('flush')

    def _read_line(self):
        """Blocking read of one complete line or timeout."""
        w = self.w
        link = self.link
        T = self.timeout_us()
        q = link.rx
        rec = w.op_rec
        if q and (T is None or q[0][0] <= w.now + T):
            arrival, data = q.popleft()
            if arrival > w.now:
                w.now = arrival
            w.log('io', self.port, 'read', data.decode('latin-1'))
            if rec is not None:
                rec['reads'].append(data.decode('latin-1'))
                rec['trace'].append(['r', self.port, data.decode('latin-1')])
            return data
        if T is None:
            raise SimHang("blocking read with infinite timeout and nothing in flight")
        w.now += T
        w.empty_reads += 1
        w.log('io', self.port, 'read', '')
        if rec is not None:
            rec['reads'].append('')
            rec['trace'].append(['r', self.port, ''])
        return b''

    def readline(self, size=-1):
        self._io('read')
        return self._read_line()

    def read_until(self, expected=b'\n', size=None):
        self._io('read')
        return self._read_line()

    def readlines(self, hint=-1):
        out = []
        while True:
            ln = self.readline()
            if not ln:
                return out
            out.append(ln)

    def read(self, size=1):
        """Byte-wise read: served from lines that have arrived within the timeout."""
        self._io('read')
        w = self.w
        link = self.link
        T = self.timeout_us()
        out = bytearray()
        deadline = None if T is None else w.now + T
        rec = w.op_rec
        while len(out) < size:
            q = link.rx
            if q and (deadline is None or q[0][0] <= deadline):
                arrival, data = q[0]
                if arrival > w.now:
                    w.now = arrival
                take = data[:size - len(out)]
                rest = data[len(take):]
                out.extend(take)
                if rest:
                    q[0][1] = rest
                else:
                    q.popleft()
            else:
                if deadline is None:
                    raise SimHang("blocking read with infinite timeout and nothing in flight")
                w.now = deadline
                break
        if not out:
            w.empty_reads += 1
        w.log('io', self.port, 'read', bytes(out).decode('latin-1'))
        if rec is not None:
            rec['reads'].append(bytes(out).decode('latin-1'))
            rec['trace'].append(['r', self.port, bytes(out).decode('latin-1')])
        return bytes(out)

    @property
    def in_waiting(self):
        if not self.is_open:
            raise serial.serialutil.PortNotOpenError()
        return sum(len(d) for a, d in self.link.rx if a <= self.w.now)

    def inWaiting(self):
        return self.in_waiting

    @property
    def out_waiting(self):
        return 0

    def reset_input_buffer(self):
        self._io('reset')
        w = self.w
        q = self.link.rx
        n = 0
        while q and q[0][0] <= w.now:
            q.popleft()
            n += 1
        w.log('io', self.port, 'reset', n)

    def flushInput(self):
        self.reset_input_buffer()

    def reset_output_buffer(self):
        self._io('reset_out')

    def flushOutput(self):
        self.reset_output_buffer()

    def __enter__(self):
        return self

    def __exit__(self, *a):
        self.close()

    def __repr__(self):
        return "SimSerial<%s id=%d open=%s>" % (self.port, self.id, self.is_open)


class Seams:
    """Install / remove the three seams.  Used as a context manager by run.execute."""

    def __init__(self, world):
        self.world = world
        self.saved = None

    EPOCH = 1700000000.0          # virtual wall clock at the start of every scenario

    def _patch_time(self):
        import time as _time
        w = self.world
        self.saved_time = {n: getattr(_time, n) for n in ('time', 'monotonic', 'perf_counter', 'time_ns',
                                                           'monotonic_ns', 'perf_counter_ns', 'sleep')}
        _time.time = lambda: self.EPOCH + w.now / 1e6
        _time.monotonic = lambda: 1000.0 + w.now / 1e6
        _time.perf_counter = lambda: 1000.0 + w.now / 1e6
        _time.time_ns = lambda: int(self.EPOCH * 1e9) + w.now * 1000
        _time.monotonic_ns = lambda: 1000 * 10 ** 9 + w.now * 1000
        _time.perf_counter_ns = lambda: 1000 * 10 ** 9 + w.now * 1000

        def _sleep(d):
            w.now += max(0, int(round(float(d) * US)))
            w.log('sleep', float(d))
        _time.sleep = _sleep

    def _unpatch_time(self):
        import time as _time
        for n, f in self.saved_time.items():
            setattr(_time, n, f)

    def __enter__(self):
        from plotink import ebb_serial, ebb3_serial
        self.saved = (serial.Serial, ebb_serial.comports, ebb3_serial.comports,
                      _list_ports.comports, World.current)
        self._patch_time()          # the code under test reads no clock today; if it ever does, it reads ours
        w = self.world
        World.current = w
        serial.Serial = SimSerial
        ebb_serial.comports = w.comports
        ebb3_serial.comports = w.comports
        _list_ports.comports = w.comports
        return w

    def __exit__(self, *exc):
        from plotink import ebb_serial, ebb3_serial
        (serial.Serial, ebb_serial.comports, ebb3_serial.comports,
         _list_ports.comports, World.current) = self.saved
        self._unpatch_time()
        return False
