"""
C04 - an EBB3 connection object latches its first error and then transmits nothing.

Monitors work on what the simulated ports saw (bytes handed to write(), with the
owning object's latch state sampled at the instant of the write) and on the
objects' err / port attributes after every op.  DESIGN.md section 7, C04.
"""

from common import (V, pair_faults, CMD_TEXTS, QRY_TEXTS, E3_METHODS, E3_NAMES, E3_CANON, EXC_ALL, EXC_SERIAL, failish, req_name, ebb_spec,
                    PORT_NAMES, distinct_ram, mk_ops, call, discover, single_faults, with_faults, reply_fault,
                    wrong_line)

PROP = 'C04'
LEVEL = 'exploration'
N_QUICK = 48000
N_THOROUGH = 1500000
WALL_QUICK = 100
WALL_THOROUGH = 1500

REACH_FOCUS = {'ebb3_serial': None, 'ebb3_motion': None}

RULE = ("Scenario = 1..3 devices, 1..3 EBBMotionWrap/EBB3 objects, a history of connect / request / disconnect "
        "calls interleaved across the objects, and a positional fault plan. Sweep part: for every registered "
        "request method x canonical argument shape, every single fault (each I/O ordinal x each exception class "
        "and unplug; each request ordinal x each reply-fault kind), and every way connect() can fail (old "
        "firmware, foreign, silent, unopenable, absent, unknown name, exception at each handshake I/O), and a "
        "never-connected object; each followed by all 32 request methods in every canonical shape, then "
        "disconnect, all methods again, connect, all methods again. Random part: multi-object, multi-fault "
        "histories. Non-trivial = the object had recorded an error (or was unconnected) and a request method was "
        "then called on it. Distinct = (latch cause, object state latched/unconnected, later method, argument "
        "shape).")

ASSUMPTIONS = [
    "only writes are monitored after the latch (the statement speaks of bytes written), reads are not",
    "which message text is recorded is not compared, only identity/equality of the first recorded value",
    "connect() on a latched, disconnected object may transmit only the handshake: v, CU,10,1 and the nickname query QT",
    "find_first, record_error, parse_version, min_version are not request methods (no port I/O) and are not driven",
]

HANDSHAKE = ('v', 'V', 'CU,10,1', 'QT')
TAIL_METHODS = [(m, ci) for m in E3_NAMES for ci in range(len(E3_CANON[m]))]


def check(scn, hist):
    out = []
    if hist.hang:
        last = hist.ops[-1] if hist.ops else None
        out.append(V(PROP, 'hang', last['op'].get('m', '?') if last else '?', last['id'] if last else None, hist.hang))
        return out
    first_err = {}
    prev_objs = []
    for rec in hist.ops:
        op = rec['op']
        objs = rec.get('objs') or []
        if op['op'] == 'call':
            k = op['obj']
            m = op['m']
            b, a = rec['before'], rec['after']
            oid = rec['id']
            latched = b['err'] is not None
            unconn = b['port'] is None
            own_ports = set(p for p in (b['port'], a['port'] if a else None, a['port_name'] if a else None,
                                        b['port_name']) if p)
            wrote = {p: w for p, w in rec['wire'].items() if w}
            if m in E3_METHODS:
                if latched or unconn:
                    if wrote:
                        out.append(V(PROP, 'write_after_latch' if latched else 'write_unconnected', m, oid,
                                     'bytes written: %r' % wrote))
                    if rec['exc'] is not None:
                        out.append(V(PROP, 'raised', m, oid, '%s: %s' % (rec['exc'], rec['exc_msg'])))
                    elif not failish(rec['ret']):
                        out.append(V(PROP, 'fail_value', m, oid, 'returned %r while %s'
                                     % (rec['ret'], 'latched' if latched else 'unconnected')))
                else:
                    # latch during the op: no later write of the same op may happen
                    for (port, data), owners in zip(rec['writes'], rec['write_owner']):
                        if any(o[0] == k and o[1] for o in owners):
                            out.append(V(PROP, 'write_after_latch', m, oid,
                                         'wrote %r after the error was recorded inside the same call' % data))
                            break
            elif m == 'connect':
                if latched:
                    for port, (reqs, tail) in _split(rec['wire']).items():
                        for r in reqs + ([tail] if tail else []):
                            if r.strip() not in HANDSHAKE:
                                out.append(V(PROP, 'write_after_latch', m, oid,
                                             'connect on a latched object sent %r' % r))
                if latched and unconn and not rec['faults_fired'] and rec['exc'] is None:
                    tgt = _connect_target(scn, hist, rec)
                    if tgt is not None and not any(q.get('plan') for q in rec['requests']):
                        if a['port'] is None or rec['ret'] is not True:
                            out.append(V(PROP, 'connect_blocked', m, oid,
                                         'connect() to a healthy supported board on a latched object: ret=%r port=%r'
                                         % (rec['ret'], a['port'])))
            elif m == 'disconnect':
                if latched and wrote:
                    out.append(V(PROP, 'write_after_latch', m, oid,
                                 'disconnect() of a latched object transmitted %r' % wrote))
                if a['port'] is not None:
                    out.append(V(PROP, 'disconnect_blocked', m, oid, 'port still set after disconnect()'))
                if b['hid'] is not None:
                    h = hist.handles[b['hid']]
                    # the handle must have been asked to close during this op
                    if b['port'] not in rec['closed']:
                        out.append(V(PROP, 'disconnect_blocked', m, oid, 'close() was not called on the port'))
                if rec['exc'] is not None:
                    out.append(V(PROP, 'raised', m, oid, '%s: %s' % (rec['exc'], rec['exc_msg'])))
            # isolation: a call on object k touches only k's port, and only k's state
            if m != 'connect':
                foreign = {p: w for p, w in wrote.items() if p not in own_ports}
                if foreign:
                    out.append(V(PROP, 'isolation', m, oid, 'bytes on a port of another object: %r' % foreign))
            for j, (po, no) in enumerate(zip(prev_objs, objs)):
                if j != k and po is not None and no is not None and (po['err'] != no['err'] or po['hid'] != no['hid']):
                    out.append(V(PROP, 'isolation', m, oid, 'state of object %d changed by a call on object %d' % (j, k)))
        # first error wins, for every object, after every op
        for j, o in enumerate(objs):
            if o is None:
                continue
            if first_err.get(j) is not None:
                if o['err'] != first_err[j]:
                    out.append(V(PROP, 'err_replaced', op.get('m', op['op']), rec['id'],
                                 'object %d: recorded error %r became %r' % (j, first_err[j], o['err'])))
                    first_err[j] = o['err']       # report each change once
            elif o['err'] is not None:
                first_err[j] = o['err']
        prev_objs = objs
        if op['op'] == 'new':
            first_err.pop(op['obj'], None)
    return out


def _split(wire):
    out = {}
    for port, w in wire.items():
        parts = w.split('\r')
        tail = parts.pop()
        out[port] = (parts, tail)
    return out


def _connect_target(scn, hist, rec):
    """If this connect() was aimed at a healthy, plugged, supported, free EBB answering
    promptly, return its port (else None: no expectation)."""
    a = rec['after']
    port = a['port_name']
    for spec, meta in zip(scn['world']['boards'], hist.devices):
        if spec['port'] == port:
            if spec.get('kind', 'ebb') != 'ebb' or spec.get('open_fails') or tuple(spec['fw']) < (3, 0, 2):
                return None
            if rec['opened'] != [port]:
                return None
            # a board that was sent BL sits in its bootloader; stale lines still in flight
            # from an earlier fault can legitimately confuse the handshake
            if any(e[2].strip().upper() == 'BL' and e[1] < rec['id'] for e in meta['log']):
                return None
            idx = hist.ops.index(rec)
            if idx > 0 and hist.ops[idx - 1]['pending'].get(port):
                return None
            return port
    return None


def _cause(rec):
    if rec['faults_fired']:
        f = rec['faults_fired'][0]
        return '%s_%s' % (f[0], f[1])
    for q in rec['requests']:
        if q.get('plan'):
            return ','.join(sorted(k for k in q['plan'] if k != 'at'))
    return 'nofault'


def classify(scn, hist):
    keys = []
    cause = {}
    for rec in hist.ops:
        op = rec['op']
        if op['op'] != 'call':
            continue
        k = op['obj']
        b, a = rec['before'], rec['after']
        if b['err'] is None and a['err'] is not None:
            cause[k] = '%s:%s' % (op['m'], _cause(rec))
        m = op['m']
        if m in E3_METHODS and (b['err'] is not None or b['port'] is None):
            state = ('L' if b['err'] is not None else '') + ('U' if b['port'] is None else '')
            shape = '%d/%s' % (len(op.get('a', [])), ','.join(sorted(op.get('k', {}))))
            keys.append('%s|%s|%s|%s' % (cause.get(k, 'never_connected'), state, m, shape))
    return keys


def observe(scn, hist, st):
    for rec in hist.ops:
        op = rec['op']
        if op['op'] == 'call':
            b = rec['before']
            if b['err'] is not None or b['port'] is None:
                st['sets']['methods_called_while_blocked'].add(op['m'])
            if rec['before']['err'] is None and rec['after']['err'] is not None:
                st['sets']['latching_methods'].add(op['m'])
                st['extra']['latch_events'] += 1


# ---------------------------------------------------------------------------
# sweep

# argument shapes that are only meaningful for the blocked states (on a healthy object a blank request is
# outside every given property, so these are never judged there)
BLOCKED_EXTRA = [('command', ['']), ('command', [' ']), ('command', ['\r']), ('query', ['']), ('query', [' \t']),
                 ('write_nickname', ['Bob']), ('write_nickname', [' Bob ']), ('write_nickname', ['']),
                 ('var_read', [5]), ('var_read_int32', [5]), ('var_write', [9, 5]), ('motors_enable', [1, 1]),
                 ('abs_move', [1000], {'position1': 0, 'position2': 0}), ('pen_raise', [100], {'pin': 0}),
                 ('servo_timeout', [60000], {'state': 0}), ('query_voltage', [None])]


def _block(obj):
    ops = []
    for m, ci in TAIL_METHODS:
        a, k = E3_CANON[m][ci]
        ops.append(call(obj, m, a, k))
    for ent in BLOCKED_EXTRA:
        ops.append(call(obj, ent[0], ent[1], ent[2] if len(ent) > 2 else None))
    # every request name the pools know, through the raw command / query entry points (no name is exempt)
    for t in CMD_TEXTS:
        ops.append(call(obj, 'command', [t]))
    for t in QRY_TEXTS:
        ops.append(call(obj, 'query', [t]))
    return ops


def tail_ops(obj=0, with_reconnect=True):
    ops = _block(obj)
    if with_reconnect:
        ops.append(call(obj, 'disconnect'))
        ops += _block(obj)
        ops.append(call(obj, 'connect'))
        ops += _block(obj)
        ops.append(call(obj, 'disconnect'))
        ops.append(call(obj, 'disconnect'))
    return ops


def _world(fw=(3, 0, 2), kind='ebb', **kw):
    spec = ebb_spec('/dev/ttyACM0', fw=fw, nick='Bob', style='linux', **kw)
    spec['kind'] = kind
    spec['prior'] = {'ram': list(range(1, 33))} if kind == 'ebb' else {}
    return {'boards': [spec]}


CONNECT_FAILS = ['old_fw', 'foreign', 'silent', 'open_fails', 'no_device', 'unknown_name', 'never_connected',
                 'io_faults', 'both_late', 'app_records_empty', 'app_records_text']


def sweep_cells(tier):
    cells = [['method', m, ci] for m, ci in TAIL_METHODS]
    cells += [['connect', kind, 0] for kind in CONNECT_FAILS]
    return cells


def sweep_expand(cell):
    what, x, ci = cell
    if what == 'method':
        m = x
        a, k = E3_CANON[m][ci]
        head = [{'op': 'new', 'obj': 0}, call(0, 'connect'), call(0, 'var_write', [9, 5]),
                call(0, 'motors_enable', [2, 2]), call(0, m, a, k)]
        # (the object has a past: a name known from connect, a variable it wrote, motors it enabled)
        base = {'prop': PROP, 'world': _world(), 'ops': mk_ops(head + tail_ops()), 'faults': {}, 'snap_dev': False}
        recs, _ = discover({'prop': PROP, 'world': _world(), 'ops': base['ops'][:5], 'faults': {}})
        excs = EXC_SERIAL if m in ('reboot', 'bootload') else EXC_ALL
        yield base
        for tag, faults in single_faults(recs[4], exc_classes=excs,
                                         reply_kinds=['drop', 'drop_request', 'err_bang', 'err_named',
                                                      'stale_instead', 'stale_front', 'stale_near', 'late26']):
            yield with_faults(base, faults)
        if m not in ('reboot', 'bootload'):
            head_scn = {'prop': PROP, 'world': _world(), 'ops': base['ops'][:5], 'faults': {}}
            for faults in pair_faults(head_scn, 4, delays=(1, 25)):
                yield with_faults(base, faults)
        return
    kind = x
    ops = [{'op': 'new', 'obj': 0}]
    world = _world()
    if kind == 'old_fw':
        world = _world(fw=(2, 8, 1))
        ops.append(call(0, 'connect'))
    elif kind == 'foreign':
        world = _world(kind='foreign')
        world['boards'][0].update({'desc': 'EiBotBoard', 'hwid': 'USB VID:PID=04D8:FD92 LOCATION=1-1'})
        ops.append(call(0, 'connect'))
    elif kind == 'silent':
        world = _world(kind='silent')
        world['boards'][0].update({'desc': 'EiBotBoard', 'hwid': 'USB VID:PID=04D8:FD92 LOCATION=1-1'})
        ops.append(call(0, 'connect'))
    elif kind == 'open_fails':
        world['boards'][0]['open_fails'] = True
        ops.append(call(0, 'connect'))
        ops.append({'op': 'env', 'what': 'open_fails', 'port': '/dev/ttyACM0', 'on': False})
    elif kind == 'no_device':
        world['boards'][0]['plugged'] = False
        ops.append(call(0, 'connect'))
        ops.append(call(0, 'connect', ['East-Plotter']))      # a second failing search, for another target
        ops.append({'op': 'env', 'what': 'replug', 'port': '/dev/ttyACM0'})
    elif kind == 'unknown_name':
        ops.append(call(0, 'connect', ['NoSuchBoard']))
        ops.append(call(0, 'connect', ['OtherAbsentBoard']))  # the message of the first search stays
    elif kind == 'never_connected':
        pass
    elif kind in ('app_records_empty', 'app_records_text'):
        ops.append(call(0, 'connect'))
        ops.append(call(0, 'record_error', ['' if kind == 'app_records_empty' else 'application says stop']))
    elif kind == 'both_late':
        ops.append(call(0, 'connect'))
    elif kind == 'io_faults':
        ops.append(call(0, 'connect'))
    base = {'prop': PROP, 'world': world, 'ops': mk_ops(ops + tail_ops()), 'faults': {}, 'snap_dev': False}
    if kind == 'both_late':
        base['faults'] = {'reply': [{'at': [1, 1], 'delay': [3]}, {'at': [1, 2], 'delay': [3]}]}
        yield base
    elif kind == 'io_faults':
        recs, _ = discover({'prop': PROP, 'world': world, 'ops': base['ops'][:2], 'faults': {}})
        rec = recs[1]
        # connect() promises to contain SerialException only; stop at the point of verification
        n_verify = rec['io'].index('read') + 1 if 'read' in rec['io'] else len(rec['io'])
        for k_ in range(1, n_verify + 1):
            for exc in EXC_SERIAL:
                yield with_faults(base, {'io': [{'at': [1, k_], 'kind': 'raise', 'exc': exc}]})
            yield with_faults(base, {'io': [{'at': [1, k_], 'kind': 'unplug'}]})
        for kd in ('drop', 'stale_instead', 'err_bang'):
            yield with_faults(base, {'reply': [reply_fault(1, 1, kd, 'v'), reply_fault(1, 2, kd, 'v')]})
    else:
        yield base


# ---------------------------------------------------------------------------
# random histories

FW_POOL = [[3, 0, 2], [3, 0, 2], [3, 1, 0], [3, 0, 10], [2, 8, 1], [3, 0, 1]]


def gen(rng, idx):
    style = rng.choice(['mac', 'linux', 'win'])
    nb = rng.choice([1, 1, 2, 2, 3])
    boards = []
    for i in range(nb):
        kind = rng.choice(['ebb'] * 8 + ['foreign', 'silent'])
        spec = ebb_spec(PORT_NAMES[style][i], fw=rng.choice(FW_POOL), nick=rng.choice(['', 'B%d' % i, 'Axi%d' % i]),
                        style=style)
        spec['kind'] = kind
        if kind == 'ebb':
            spec['prior'] = {'ram': distinct_ram(rng)}
        else:
            spec['desc'] = 'EiBotBoard'
            spec['hwid'] = 'USB VID:PID=04D8:FD92 LOCATION=1-%d' % i
        if rng.random() < 0.05:
            spec['open_fails'] = True
        boards.append(spec)
    world = {'boards': boards}
    nobj = rng.choice([1, 1, 2, 2, 3])
    ops = []
    for k in range(nobj):
        ops.append({'op': 'new', 'obj': k, 'cls': rng.choice(['EBBMotionWrap', 'EBBMotionWrap', 'EBB3'])})
    only_base = [ops[k].get('cls') == 'EBB3' for k in range(nobj)]
    base_names = ['command', 'query', 'query_statusbyte', 'reboot', 'bootload', 'query_nickname', 'write_nickname',
                  'var_write', 'var_read', 'var_write_int32', 'var_read_int32']
    n = rng.randint(4, 36)
    connected_hint = [False] * nobj
    for _ in range(n):
        k = rng.randrange(nobj)
        r = rng.random()
        if not connected_hint[k] and r < 0.6:
            tgt = boards[k % nb]['port'] if rng.random() < 0.8 else rng.choice(boards)['port']
            if rng.random() < 0.15:
                ops.append(call(k, 'connect'))
            else:
                ops.append(call(k, 'connect', [tgt]) if rng.random() < 0.5 else call(k, 'connect', [], {'given_name': tgt}))
            connected_hint[k] = True
        elif r < 0.08:
            ops.append(call(k, 'disconnect'))
            connected_hint[k] = False
        elif r < 0.12:
            ops.append(call(k, 'connect'))
        elif r < 0.135:
            ops.append(call(k, 'record_error', [rng.choice(['', 'application says stop', 'x'])]))
        else:
            m = rng.choice(base_names if only_base[k] else E3_NAMES)
            if m in ('reboot', 'bootload') and rng.random() < 0.6:
                m = 'xy_move' if not only_base[k] else 'var_read'
            a, kw = E3_METHODS[m](rng)
            if m == 'command' and req_name(a[0]).lower() in ('rb', 'bl') and rng.random() < 0.8:
                a = ['SM,10,1,1']
            if m in ('command', 'query') and rng.random() < 0.06:
                a = [rng.choice(['', ' ', '\r', '\t '])]        # judged only while the object is blocked
            if m == 'write_nickname' and rng.random() < 0.4:
                a = [rng.choice(['B0', 'B1', 'B2', 'Axi0', 'Axi1', 'Axi2', ''])]   # often the tag it already has
            ops.append(call(k, m, a, kw))
    mk_ops(ops)
    scn = {'prop': PROP, 'world': world, 'ops': ops, 'faults': {}, 'snap_dev': False}
    recs, _ = discover(scn)
    faults = {'io': [], 'reply': []}
    cands = [op for op in ops if op['op'] == 'call' and op['m'] != 'disconnect' and recs[op['id']]['io']]
    nf = rng.choice([1, 1, 1, 2, 2, 3, 4])
    for _ in range(nf):
        if not cands:
            break
        op = rng.choice(cands[:max(1, len(cands) * 2 // 3)]) if rng.random() < 0.7 else rng.choice(cands)
        rec = recs[op['id']]
        kinds = ['raise', 'unplug', 'drop', 'err_bang', 'err_named', 'stale_instead', 'stale_front', 'late26',
                 'drop_request']
        kind = rng.choice(kinds)
        if kind in ('raise', 'unplug') or not rec['requests']:
            kpos = rng.randint(1, len(rec['io']))
            if kind == 'unplug':
                faults['io'].append({'at': [op['id'], kpos], 'kind': 'unplug'})
            else:
                if op['m'] in ('connect', 'reboot', 'bootload'):
                    excs = EXC_SERIAL
                    if op['m'] == 'connect':
                        # exceptions after verification propagate today (observation O1, no property covers it)
                        n_verify = rec['io'].index('read') + 1 if 'read' in rec['io'] else len(rec['io'])
                        kpos = rng.randint(1, n_verify)
                else:
                    excs = EXC_ALL
                faults['io'].append({'at': [op['id'], kpos], 'kind': 'raise', 'exc': rng.choice(excs)})
        else:
            r = rng.randint(1, len(rec['requests']))
            name = req_name(rec['requests'][r - 1]['text'])
            if kind in ('stale_instead', 'stale_front'):
                f = {'at': [op['id'], r], 'stale': {'text': wrong_line(rng, name) + '\n'}}
                if kind == 'stale_instead':
                    f['stale']['instead'] = True
            else:
                f = reply_fault(op['id'], r, kind, name)
            faults['reply'].append(f)
    scn['faults'] = faults
    return scn
