"""
C15 - firmware version gating uses numeric version order and blocks unsupported boards.

Handshake reply sequences (prompt, late, absent, non-EBB, raising) x generated
firmware triples with multi-digit components, both serial layers; device-side
invariant on what an unsupported device receives.  DESIGN.md section 7, C15.
"""

from common import (V, E3_METHODS, EXC_SERIAL, EXC_ALL, ebb_spec, PORT_NAMES, mk_ops, call, lcall, discover,
                    failish)

PROP = 'C15'
LEVEL = 'exploration'
N_QUICK = 80000
N_THOROUGH = 2000000
WALL_QUICK = 100
WALL_THOROUGH = 1500

REACH_FOCUS = {'ebb3_serial': ['connect', 'parse_version', 'min_version', 'disconnect', '_get_port_name'], 'ebb_serial': ['min_version', 'queryVersion', 'query_nickname', 'write_nickname', 'reboot'], 'ebb_motion': ['servo_timeout', 'queryVoltage']}

RULE = ("Three scenario families. (connect) 1..3 devices - EBBs with firmware triples around every threshold and "
        "with multi-digit components, foreign devices, silent devices, unopenable or absent ports - and 1..2 EBB3 "
        "objects; connect attempts under handshake reply plans (prompt, first reply late, both late, absent, non-EBB "
        "text, exception at open / reset / either v write or read, unplug), followed by request tails, disconnects "
        "and repeated connects. (order) min_version of both layers against generated board/threshold triple pairs. "
        "(gates) legacy servo_timeout, queryVoltage, query_nickname, write_nickname, reboot against boards of "
        "generated versions with conforming, delayed or failing version probes. Sweep part: the full grid of board "
        "triples x thresholds for both layers, every device kind x every handshake plan x every single exception. "
        "Non-trivial = handshake with a non-prompt element, or a version within one component step of a threshold, "
        "or a multi-digit component. Distinct = (family, device kind, version-vs-threshold class, handshake plan, "
        "call ordinal).")

ASSUMPTIONS = [
    "the supported minimum is read from EBB3.MIN_VERSION_STRING and parsed by the oracle as an integer triple; it is "
    "floored at 3.0.0 because the module documents itself as 'firmware v3 and newer'",
    "legacy feature minimums are fixed in the oracle from the helpers' docstrings: SR 2.6.0, QT/ST/RB 2.5.5, QC 2.2.3",
    "a device line containing 'EBB' but no parsable version, and exceptions raised after verification (during the "
    "CU,10,1 exchange), are outside the stated reply classes and are not injected",
    "stale / substituted handshake lines never contain the text 'EBB'",
]

GATES = {'servo_timeout': ('SR', (2, 6, 0)), 'queryVoltage': ('QC', (2, 2, 3)),
         'query_nickname': ('QT', (2, 5, 5)), 'write_nickname': ('ST', (2, 5, 5)), 'reboot': ('RB', (2, 5, 5))}

# helpers of the legacy layer that document no gated command: driven next to the gated ones (wave 8)
BYSTANDERS = {'sendDisableMotors': lambda r: [], 'sendEnableMotors': lambda r: [r.choice([0, 1, 2, 5])],
              'QueryPenUp': lambda r: [], 'QueryPRGButton': lambda r: [],
              'sendPenDown': lambda r: [r.choice([0, 150])], 'sendPenUp': lambda r: [r.choice([0, 150])],
              'TogglePen': lambda r: [], 'setPenDownPos': lambda r: [r.choice([12000, 16000])],
              'setPenUpPos': lambda r: [r.choice([18000, 22000])], 'query_enable_motors': lambda r: [],
              'query_steps': lambda r: [], 'doTimedPause': lambda r: [r.choice([1, 30])],
              'doXYMove': lambda r: [r.choice([0, 10]), r.choice([-10, 5]), r.choice([10, 50])],
              'queryEBBLV': lambda r: [], 'setEBBLV': lambda r: [r.choice([0, 50])]}

COMPONENTS = [0, 1, 2, 3, 4, 5, 6, 9, 10, 11, 25, 99, 100]


def min_supported():
    from plotink import ebb3_serial
    s = ebb3_serial.EBB3.MIN_VERSION_STRING
    try:
        t = tuple(int(x) for x in s.strip().split('.'))
    except ValueError:
        t = (3, 0, 2)
    while len(t) < 3:
        t = t + (0,)
    return max(t[:3], (3, 0, 0))


def triple(s):
    try:
        t = tuple(int(x) for x in s.strip().split('.'))
    except (ValueError, AttributeError):
        return None
    while len(t) < 3:
        t = t + (0,)
    return t


def fw3(spec):
    """Firmware of a device spec as an integer triple (a report with fewer fields is padded with zeros:
    3.0 is 3.0.0)."""
    t = tuple(spec['fw'])
    return (t + (0, 0, 0))[:3]


GATE_STALE = ['OK', 'ERROR', 'AT+GMR: 1.0', '!8 Err: Unknown command', 'garbage 3.0.2', 'Axi 2.6.0', '9.9.9',
              'Version 3.0.2', 'firmware version 3.0.2']     # none contains the text "Firmware Version "


def stored_version(v):
    """The dotted number at the end of whatever the object keeps as its version, as a padded triple; None
    when it keeps nothing that reads as one (how the version is stored is not part of the property)."""
    import re
    if not isinstance(v, str):
        return None
    m = re.search(r'(\d+(?:\.\d+){0,2})\s*$', v)
    if not m:
        return None
    t = tuple(int(x) for x in m.group(1).split('.'))
    return (t + (0, 0, 0))[:3]


def spec_of(scn, port):
    for b in scn['world']['boards']:
        if b['port'] == port:
            return b
    return None


def check(scn, hist):
    out = []
    if hist.hang:
        last = hist.ops[-1] if hist.ops else None
        out.append(V(PROP, 'hang', '?', last['id'] if last else None, hist.hang))
        return out
    MIN = min_supported()
    slot_port = {}
    e3_ops = set()
    op_kind = {}
    cur = {b['port']: b for b in scn['world']['boards']}     # device currently behind each port name
    obj_min = {}                                              # object -> its own (raised) minimum, if any
    plugged = {b['port']: b.get('plugged', True) for b in scn['world']['boards']}
    open_fails = {b['port']: b.get('open_fails', False) for b in scn['world']['boards']}
    for i, rec in enumerate(hist.ops):
        op = rec['op']
        oid = rec['id']
        op_kind[oid] = op['op']
        if op['op'] == 'lopen':
            slot_port[op['slot']] = op['port']
        elif op['op'] == 'new':
            obj_min.pop(op['obj'], None)
            if op.get('min_version') and triple(op['min_version']):
                obj_min[op['obj']] = max(triple(op['min_version']), MIN)
        elif op['op'] == 'env':
            if op['what'] == 'unplug':
                plugged[op['port']] = False
            elif op['what'] == 'replug':
                plugged[op['port']] = True
            elif op['what'] == 'open_fails':
                open_fails[op['port']] = bool(op['on'])
            elif op['what'] == 'replace_device':
                cur[op['port']] = dict(op['spec'], port=op['port'])
        elif op['op'] == 'call':
            e3_ops.add(oid)
            m = op['m']
            b, a = rec['before'], rec['after']
            if m == 'connect':
                port = a['port_name']
                spec = cur.get(port) if port is not None else None
                my_min = obj_min.get(op['obj'], MIN)
                supported = bool(spec is not None and spec.get('kind', 'ebb') == 'ebb' and fw3(spec) >= my_min
                                 and 'version_text' not in spec)
                if rec['exc'] is not None:
                    # after verification connect() lets a SerialException propagate today (observation O1);
                    # before verification it promises False.  Only judged for unsupported devices:
                    if not supported:
                        out.append(V(PROP, 'connect_raised', m, oid, '%s: %s' % (rec['exc'], rec['exc_msg'])))
                    continue
                if rec['open_attempts'] and not rec['opened'] and b['port'] is None:
                    # the port could not be opened (refused, busy, gone): False, with an error recorded
                    if rec['ret'] is not False or a['err'] is None:
                        out.append(V(PROP, 'connect_not_false', m, oid,
                                     'the port %r could not be opened, connect() returned %r, err=%r'
                                     % (rec['open_attempts'][0], rec['ret'], a['err'])))
                    continue
                if rec['ret'] is True and a['err'] is None and b['port'] is not None and not b['port_open']:
                    # "already connected" may only be answered for a port that is in fact still open: otherwise
                    # True is returned for a board that has not identified itself
                    out.append(V(PROP, 'connect_true_unidentified', m, oid,
                                 'connect() returned True without any handshake although the object only held a '
                                 'closed port (%r)' % (b['port'],)))
                    continue
                if rec['ret'] is True and a['err'] is None and not supported:
                    out.append(V(PROP, 'connect_true_unsupported', m, oid,
                                 'connect() returned True with no error for %r' % (_descr(spec),)))
                if not supported:
                    if rec['ret'] is not False or a['err'] is None:
                        out.append(V(PROP, 'connect_not_false', m, oid,
                                     'connect() to %s returned %r, err=%r (call #%d on this object)'
                                     % (_descr(spec), rec['ret'], a['err'], op.get('nth', 0))))
                else:
                    conforming = (not rec['faults_fired'] and not any(q.get('plan') for q in rec['requests'])
                                  and b['port'] is None and b['err'] is None
                                  and rec['opened'] == [port] and not _pending_before(hist, i, port)
                                  and not _bootloader(hist, port, oid))
                    if conforming:
                        if rec['ret'] is not True or a['err'] is not None:
                            out.append(V(PROP, 'connect_converse', m, oid,
                                         'prompt, fault-free handshake with supported %s: returned %r, err=%r'
                                         % (_descr(spec), rec['ret'], a['err'])))
                        elif stored_version(a['version']) not in (None, fw3(spec)):
                            # (only when the object keeps something that reads as a dotted version number)
                            out.append(V(PROP, 'connect_converse', m, oid, 'stored version %r for board %r'
                                         % (a['version'], spec['fw'])))
            elif m == 'min_version':
                if rec['exc'] is not None or b['version'] is None:
                    continue
                have = triple(b['version'])
                want = triple(op['a'][0])
                if have is None or want is None:
                    continue
                if rec['ret'] is not (have >= want):
                    out.append(V(PROP, 'version_order', 'EBB3.min_version', oid,
                                 'board %s vs %r: returned %r' % (b['version'], op['a'][0], rec['ret'])))
        elif op['op'] == 'lcall':
            mod, fn = op['f'].split('.')
            args = op.get('a', [])
            port = slot_port.get(args[0]['slot']) if args and isinstance(args[0], dict) else None
            if port is None:
                continue
            spec = cur.get(port)
            if spec is None or spec.get('kind', 'ebb') != 'ebb':
                continue
            fw = fw3(spec)
            probe_ok = _probe_ok(rec, hist, i, port)
            if fn == 'min_version' and mod == 'ebb_serial':
                want = triple(args[1])
                if rec['exc'] is not None:
                    out.append(V(PROP, 'raised', 'ebb_serial.min_version', oid, '%s: %s' % (rec['exc'], rec['exc_msg'])))
                    continue
                if want is None:
                    continue
                if probe_ok:
                    if rec['ret'] is not (fw >= want):
                        out.append(V(PROP, 'version_order', 'ebb_serial.min_version', oid,
                                     'board %r vs %r: returned %r' % (spec['fw'], args[1], rec['ret'])))
                elif rec['ret'] is True and not (fw >= want):
                    out.append(V(PROP, 'version_order', 'ebb_serial.min_version', oid,
                                 'failed probe, board %r below %r, returned True' % (spec['fw'], args[1])))
            elif fn in GATES and (mod, fn) in (('ebb_motion', 'servo_timeout'), ('ebb_motion', 'queryVoltage'),
                                              ('ebb_serial', 'query_nickname'), ('ebb_serial', 'write_nickname'),
                                              ('ebb_serial', 'reboot')):
                name, gate = GATES[fn]
                reqs = [r.strip() for r in rec['wire'].get(port, '').split('\r') if r.strip()]
                sent = any(r.upper().split(',')[0] == name for r in reqs)
                if sent and fw < gate:
                    out.append(V(PROP, 'gate', fn, oid, '%s sent to firmware %r (< %r)' % (name, spec['fw'], gate)))
                elif sent and not probe_ok and not _probe_answered(rec):
                    out.append(V(PROP, 'gate', fn, oid, '%s sent although the version probe was not answered' % name))
                elif not sent and probe_ok and fw >= gate and rec['exc'] is None:
                    out.append(V(PROP, 'gate_blocks_supported', fn, oid,
                                 '%s not sent to firmware %r (>= %r): wire %r' % (name, spec['fw'], gate, reqs)))
            elif mod == 'ebb_motion' and fn in BYSTANDERS:
                # a gated command reaches the board "only when the board reports at least that version" - also
                # when it is another helper that transmits it (no helper of the legacy layer documents one)
                reqs = [r.strip() for r in rec['wire'].get(port, '').split('\r') if r.strip()]
                for name, gate in sorted(set(GATES.values())):
                    if fw < gate and any(r.upper().split(',')[0] == name for r in reqs):
                        out.append(V(PROP, 'gate', fn, oid, '%s sent to firmware %r (< %r) by %s: wire %r'
                                     % (name, spec['fw'], gate, fn, reqs)))
    # device-side invariant: an unsupported device gets nothing but version probes from the EBB3 layer
    op_obj = {rec['id']: rec['op'].get('obj') for rec in hist.ops if rec['op']['op'] == 'call'}
    for dev in hist.all_devices:
        spec = dev['spec']
        is_plain_ebb = spec.get('kind', 'ebb') == 'ebb' and 'version_text' not in spec
        for reqno, op_id, text, lines in dev['log']:
            # (what counts as supported is decided by the minimum of the object that is talking)
            supported = is_plain_ebb and fw3(spec) >= _min_at(scn, op_obj.get(op_id), op_id, MIN)
            if supported:
                continue
            if op_id in e3_ops and text.strip().lower() != 'v':
                m = '?'
                for rec in hist.ops:
                    if rec['id'] == op_id:
                        m = rec['op'].get('m', '?')
                out.append(V(PROP, 'device_got_more_than_probe', m, op_id,
                             'unsupported %s received %r from the EBB3 layer' % (_descr(spec), text)))
                break
    return out


def _min_at(scn, obj, op_id, default):
    """The minimum firmware the object `obj` insisted on when op `op_id` ran (its latest 'new' op before it)."""
    best = default
    for op in scn['ops']:
        if op['id'] >= op_id:
            break
        if op['op'] == 'new' and op.get('obj') == obj:
            best = default
            if op.get('min_version') and triple(op['min_version']):
                best = max(triple(op['min_version']), default)
    return best


def _descr(spec):
    if spec is None:
        return 'no device'
    if spec.get('kind', 'ebb') != 'ebb':
        return '%s device on %s' % (spec['kind'], spec['port'])
    return 'EBB firmware %s on %s' % ('.'.join(str(x) for x in spec['fw']), spec['port'])


def _pending_before(hist, i, port):
    return i > 0 and bool(hist.ops[i - 1]['pending'].get(port))


def _bootloader(hist, port, oid):
    for d in hist.all_devices:
        if d['port'] == port and any(e[2].strip().upper() == 'BL' and e[1] < oid for e in d['log']):
            return True
    return False


def _probe_ok(rec, hist, i, port):
    """The version probe of this legacy call was answered in a conforming way."""
    if rec['faults_fired'] or _pending_before(hist, i, port) or not rec['requests']:
        return False
    q = rec['requests'][0]
    if q['text'].strip().upper() != 'V' or not q['seen']:
        return False
    plan = q.get('plan')
    if plan and (set(plan) - {'at', 'delay'} or any(d > 100 for d in plan.get('delay', []))):
        return False
    return True


def _probe_answered(rec):
    return any('Firmware Version' in r for r in rec['reads'])


def vclass(fw, thr):
    fw, thr = tuple(fw), tuple(thr)
    multi = any(c >= 10 for c in fw + thr)
    if fw == thr:
        rel = 'eq'
    elif fw > thr:
        rel = 'gt1' if sum(abs(a - b) for a, b in zip(fw, thr)) == 1 else 'gt'
    else:
        rel = 'lt1' if sum(abs(a - b) for a, b in zip(fw, thr)) == 1 else 'lt'
    # does string order disagree with numeric order?
    s1, s2 = '.'.join(map(str, fw)), '.'.join(map(str, thr))
    lex = (s1 >= s2) != (fw >= thr)
    return rel + ('M' if multi else '') + ('X' if lex else '')


def classify(scn, hist):
    keys = []
    MIN = min_supported()
    nth = {}
    for rec in hist.ops:
        op = rec['op']
        if op['op'] == 'call' and op['m'] == 'connect':
            k = op['obj']
            nth[k] = nth.get(k, 0) + 1
            spec = spec_of(scn, rec['after']['port_name']) if rec['after']['port_name'] else None
            kind = 'none' if spec is None else spec.get('kind', 'ebb')
            vc = vclass(spec['fw'], MIN) if spec is not None and kind == 'ebb' else '-'
            plans = []
            for q in rec['requests']:
                p = q.get('plan')
                plans.append('p' if not p else ','.join(sorted(x for x in p if x != 'at')) +
                             (str(p.get('delay')) if p.get('delay') else ''))
            ft = ['%s_%s@%d' % (f[0], f[1], f[3]) for f in rec['faults_fired']]
            if vc not in ('gt', 'lt', '-') or ft or any(p != 'p' for p in plans) or kind != 'ebb' or nth[k] > 1:
                keys.append('connect|%s|%s|%s|%s|#%d|%s' % (kind, vc, '/'.join(plans), ';'.join(ft), min(nth[k], 3),
                                                            rec['ret']))
        elif op['op'] == 'call' and op['m'] == 'min_version' and rec['before']['version']:
            have, want = triple(rec['before']['version']), triple(op['a'][0])
            if have and want:
                vc = vclass(have, want)
                if vc not in ('gt', 'lt'):
                    keys.append('e3min|%s' % vc)
        elif op['op'] == 'lcall':
            fn = op['f'].split('.')[1]
            a = op.get('a', [])
            if fn == 'min_version' and len(a) > 1:
                port = None
                for r2 in hist.ops:
                    if r2['op']['op'] == 'lopen' and r2['op']['slot'] == a[0].get('slot'):
                        port = r2['op']['port']
                spec = spec_of(scn, port)
                want = triple(a[1])
                if spec and want:
                    vc = vclass(spec['fw'], want)
                    pl = 'plan' if any(q.get('plan') for q in rec['requests']) or rec['faults_fired'] else 'prompt'
                    if vc not in ('gt', 'lt') or pl != 'prompt':
                        keys.append('legmin|%s|%s' % (vc, pl))
            elif fn in GATES:
                port = None
                for r2 in hist.ops:
                    if r2['op']['op'] == 'lopen' and isinstance(a[0], dict) and r2['op']['slot'] == a[0].get('slot'):
                        port = r2['op']['port']
                spec = spec_of(scn, port)
                if spec:
                    vc = vclass(spec['fw'], GATES[fn][1])
                    pl = 'plan' if any(q.get('plan') for q in rec['requests']) or rec['faults_fired'] else 'prompt'
                    if vc not in ('gt', 'lt') or pl != 'prompt':
                        keys.append('gate|%s|%s|%s' % (fn, vc, pl))
    return keys


def observe(scn, hist, st):
    for rec in hist.ops:
        op = rec['op']
        if op['op'] == 'call' and op['m'] == 'connect':
            if rec['exc'] is not None:
                st['extra']['O1_connect_raised_after_verification'] += 1
            st['extra']['connect_calls'] += 1
            if rec['ret'] is True:
                st['extra']['connect_true'] += 1


# ---------------------------------------------------------------------------
# generation

def gen_triple(rng, around=None):
    if around is not None and rng.random() < 0.7:
        t = (list(around) + [0, 0, 0])[:3]
        i = rng.randrange(3)
        r = rng.random()
        if r < 0.3:
            pass
        elif r < 0.55:
            t[i] += 1
        elif r < 0.8:
            if t[i] > 0:
                t[i] -= 1
        else:
            t[i] = rng.choice([10, 11, 25, 100])
            if rng.random() < 0.5 and i > 0:
                t[i - 1] = max(0, t[i - 1] - 1)
        if rng.random() < 0.04:
            t = t[:rng.choice([1, 2])]          # a report / threshold with fewer fields: 3.0 means 3.0.0
        return t
    return [rng.choice([0, 1, 2, 2, 3, 3, 4, 10, 30]), rng.choice(COMPONENTS), rng.choice(COMPONENTS)]


def fstr(t):
    return '.'.join(str(x) for x in t)


NON_EBB_LINES = ['OK', 'ERROR', 'AT+GMR: 1.0', '!8 Err: Unknown command', 'Firmware Version 3.0.2', 'garbage 3.0.2',
                 'ebb firmware version 3.0.2', '{"error": "unknown command", "v": "3.0.2"}', '{}', '{', '100% ready %s',
                 '{0} {1}']

HANDSHAKES = ['prompt', 'prompt', 'late1', 'late_both', 'late2_only', 'absent1', 'absent_both', 'nonebb1',
              'nonebb_both', 'raise', 'unplug', 'err1']


def handshake_faults(rng, plan, oid, n_io_verify):
    io, reply = [], []
    if plan == 'late1':
        reply.append({'at': [oid, 1], 'delay': [rng.choice([1, 1, 2])]})
    elif plan == 'late_both':
        reply.append({'at': [oid, 1], 'delay': [rng.choice([1, 2, 3])]})
        reply.append({'at': [oid, 2], 'delay': [rng.choice([1, 2, 3])]})
    elif plan == 'late2_only':
        reply.append({'at': [oid, 1], 'drop': 'all'})
        reply.append({'at': [oid, 2], 'delay': [rng.choice([1, 2])]})
    elif plan == 'absent1':
        reply.append({'at': [oid, 1], rng.choice(['drop', 'drop_request']): 'all'})
    elif plan == 'absent_both':
        reply.append({'at': [oid, 1], 'drop': 'all'})
        reply.append({'at': [oid, 2], 'drop': 'all'})
    elif plan == 'nonebb1':
        reply.append({'at': [oid, 1], 'stale': {'text': rng.choice(NON_EBB_LINES) + '\r\n', 'instead': True}})
    elif plan == 'nonebb_both':
        reply.append({'at': [oid, 1], 'stale': {'text': rng.choice(NON_EBB_LINES) + '\r\n', 'instead': True}})
        reply.append({'at': [oid, 2], 'stale': {'text': rng.choice(NON_EBB_LINES) + '\r\n', 'instead': True}})
    elif plan == 'err1':
        reply.append({'at': [oid, 1], 'err': 'bang'})
    elif plan == 'raise':
        io.append({'at': [oid, rng.randint(1, max(1, n_io_verify))], 'kind': 'raise', 'exc': rng.choice(EXC_SERIAL)})
    elif plan == 'unplug':
        io.append({'at': [oid, rng.randint(1, max(1, n_io_verify))], 'kind': 'unplug'})
    for f in reply:
        if 'drop_request' in f:
            f['drop_request'] = True
    return io, reply


def make_devices(rng, n, style, MIN):
    boards = []
    for i in range(n):
        kind = rng.choice(['ebb'] * 7 + ['foreign', 'silent'])
        fw = gen_triple(rng, around=rng.choice([MIN, MIN, (3, 0, 0), (2, 9, 9), (3, 10, 0)]))
        spec = ebb_spec(PORT_NAMES[style][i], fw=fw, nick=rng.choice(['', 'N%d' % i]), style=style)
        spec['kind'] = kind
        if kind != 'ebb':
            spec['desc'] = 'EiBotBoard'
            spec['hwid'] = 'USB VID:PID=04D8:FD92 LOCATION=2-%d' % i
            if kind == 'foreign':
                spec['answer'] = rng.choice(NON_EBB_LINES)
        if rng.random() < 0.06:
            spec['open_fails'] = True
            if rng.random() < 0.5:
                spec['open_errno'] = rng.choice([16, 13, 2])        # EBUSY, EACCES, ENOENT
        if rng.random() < 0.05:
            spec['plugged'] = False
        boards.append(spec)
    return boards


TAIL = ['xy_move', 'query_steps', 'var_write', 'var_read', 'motors_enable', 'pen_raise', 'query_voltage',
        'query_statusbyte', 'command', 'query', 'query_nickname', 'write_nickname', 'timed_pause', 'reboot',
        'servo_timeout']


def gen_connect(rng, idx):
    MIN = min_supported()
    style = rng.choice(['mac', 'linux', 'win'])
    boards = make_devices(rng, rng.choice([1, 1, 2, 3]), style, MIN)
    world = {'boards': boards}
    nobj = rng.choice([1, 1, 2])
    ops = [{'op': 'new', 'obj': k} for k in range(nobj)]
    for o in ops:
        if rng.random() < 0.15:
            t = list(MIN)
            i = rng.randrange(3)
            t[i] += rng.choice([1, 8, 10])
            o['min_version'] = fstr(t)       # an application that insists on newer firmware than the library
    nth = [0] * nobj
    plans = {}
    for _ in range(rng.randint(1, 8)):
        k = rng.randrange(nobj)
        r = rng.random()
        if r < 0.55:
            tgt = rng.choice(boards)['port']
            x = rng.random()
            if x < 0.25:
                op = call(k, 'connect')
            elif x < 0.2 + 0.15 and any(b.get('nick') for b in boards):
                op = call(k, 'connect', [rng.choice([b['nick'] for b in boards if b.get('nick')])])   # by name tag
            elif x < 0.9:
                op = call(k, 'connect', [tgt])
            else:
                op = call(k, 'connect', ['Nobody'])
            nth[k] += 1
            op['nth'] = nth[k]
            ops.append(op)
            plans[len(ops) - 1] = rng.choice(HANDSHAKES)
            for _ in range(rng.randint(0, 4)):
                m = rng.choice(TAIL)
                a, kw = E3_METHODS[m](rng)
                ops.append(call(k, m, a, kw))
        elif r < 0.7:
            ops.append(call(k, 'disconnect'))
            if nobj == 1 and rng.random() < 0.3:
                b = rng.choice(boards)
                nb_ = make_devices(rng, 1, style, MIN)[0]
                nb_['port'] = b['port']
                nb_.pop('plugged', None)
                ops.append({'op': 'env', 'what': 'replace_device', 'port': b['port'], 'spec': nb_})
        elif r < 0.8:
            ops.append(call(k, 'min_version', [fstr(gen_triple(rng, around=MIN))]))
        elif r < 0.85:
            b = rng.choice(boards)
            ops.append({'op': 'env', 'what': rng.choice(['unplug', 'replug']), 'port': b['port']})
        else:
            op = call(k, 'connect')
            nth[k] += 1
            op['nth'] = nth[k]
            ops.append(op)
            plans[len(ops) - 1] = 'prompt'
    mk_ops(ops)
    scn = {'prop': PROP, 'world': world, 'ops': ops, 'faults': {}, 'cfg': {'family': 'connect'}, 'snap_dev': False}
    recs, _ = discover(scn)
    faults = {'io': [], 'reply': []}
    for pos, plan in plans.items():
        op = ops[pos]
        rec = recs[op['id']]
        if plan == 'prompt' or not rec['io']:
            continue
        n_verify = rec['io'].index('read') + 1 if 'read' in rec['io'] else len(rec['io'])
        io, reply = handshake_faults(rng, plan, op['id'], n_verify)
        faults['io'] += io
        faults['reply'] += reply
    scn['faults'] = faults
    # min_version on an object that never parsed a version raises TypeError (outside the property): the oracle
    # only judges calls made with a stored version.
    return scn


def gen_order(rng, idx):
    MIN = min_supported()
    style = rng.choice(['mac', 'linux', 'win'])
    fw_l = gen_triple(rng, around=rng.choice([(2, 5, 5), (2, 6, 0), (2, 2, 3), (2, 9, 9), (2, 10, 0)]))
    fw_e = gen_triple(rng, around=rng.choice([MIN, (3, 10, 0), (3, 0, 10), (10, 0, 0)]))
    if (tuple(fw_e) + (0, 0, 0))[:3] < MIN:
        fw_e = list(MIN)
    b0 = ebb_spec(PORT_NAMES[style][0], fw=fw_l, nick='L', style=style)
    b1 = ebb_spec(PORT_NAMES[style][1], fw=fw_e, nick='E', style=style)
    world = {'boards': [b0, b1]}
    ops = [{'op': 'lopen', 'slot': 0, 'port': b0['port']}, {'op': 'new', 'obj': 0},
           call(0, 'connect', [b1['port']])]
    for _ in range(rng.randint(2, 12)):
        if rng.random() < 0.5:
            thr = gen_triple(rng, around=fw_l)
            ops.append(lcall('ebb_serial.min_version', [{'slot': 0}, fstr(thr)]))
        else:
            thr = gen_triple(rng, around=fw_e)
            ops.append(call(0, 'min_version', [fstr(thr)]))
    mk_ops(ops)
    scn = {'prop': PROP, 'world': world, 'ops': ops, 'faults': {}, 'cfg': {'family': 'order'}, 'snap_dev': False}
    if rng.random() < 0.4:
        recs, _ = discover(scn)
        reply = []
        for op in ops:
            if op['op'] == 'lcall' and rng.random() < 0.5:
                reply.append({'at': [op['id'], 1], 'delay': [rng.choice([1, 2, 99, 100])]})
            elif op['op'] == 'lcall' and rng.random() < 0.2:
                reply.append({'at': [op['id'], 1], rng.choice(['drop', 'err']): 'all'})
                if 'err' in reply[-1]:
                    reply[-1]['err'] = 'bang'
        scn['faults'] = {'reply': reply, 'io': []}
    return scn


def gate_call(rng, fn, slot):
    if fn == 'servo_timeout':
        a = [{'slot': slot}, rng.choice([0, 1, 60000])]
        if rng.random() < 0.5:
            a.append(rng.choice([None, 0, 1]))
        return lcall('ebb_motion.servo_timeout', a)
    if fn == 'queryVoltage':
        return lcall('ebb_motion.queryVoltage', [{'slot': slot}])
    if fn == 'query_nickname':
        return lcall('ebb_serial.query_nickname', [{'slot': slot}] + ([rng.choice([True, False])] if rng.random() < 0.5 else []))
    if fn == 'write_nickname':
        return lcall('ebb_serial.write_nickname', [{'slot': slot}, rng.choice(['Bob', 'x y', ''])])
    return lcall('ebb_serial.reboot', [{'slot': slot}])


def gen_gates(rng, idx):
    style = rng.choice(['mac', 'linux', 'win'])
    nb = rng.choice([1, 2])
    boards = []
    for i in range(nb):
        fw = gen_triple(rng, around=rng.choice([(2, 5, 5), (2, 6, 0), (2, 2, 3), (2, 9, 9), (2, 10, 0)]))
        boards.append(ebb_spec(PORT_NAMES[style][i], fw=fw, nick=rng.choice(['', 'Nick%d' % i]), style=style))
    world = {'boards': boards}
    ops = [{'op': 'lopen', 'slot': i, 'port': boards[i]['port']} for i in range(nb)]
    swap = rng.random() < 0.35
    for _ in range(rng.randint(1, 10)):
        s = rng.randrange(nb)
        fn = rng.choice(list(GATES))
        ops.append(gate_call(rng, fn, s))
        if rng.random() < 0.3:
            by = rng.choice(sorted(BYSTANDERS))
            ops.append(lcall('ebb_motion.' + by, [{'slot': s}] + BYSTANDERS[by](rng)))
        if fn == 'reboot':
            ops.append({'op': 'env', 'what': 'quiesce'})
        if swap and rng.random() < 0.3:
            # the port is closed, another board (other firmware) is plugged in and gets the same port name
            fw = gen_triple(rng, around=rng.choice([(2, 5, 5), (2, 6, 0), (2, 2, 3), (2, 5, 4), (2, 1, 0), (2, 10, 0)]))
            ops.append(lcall('ebb_serial.closePort', [{'slot': s}]))
            ops.append({'op': 'env', 'what': 'replace_device', 'port': boards[s]['port'],
                        'spec': ebb_spec(boards[s]['port'], fw=fw, nick=rng.choice(['', 'Swapped']), style=style)})
            ops.append({'op': 'lopen', 'slot': s, 'port': boards[s]['port']})
    mk_ops(ops)
    scn = {'prop': PROP, 'world': world, 'ops': ops, 'faults': {}, 'cfg': {'family': 'gates'}, 'snap_dev': False}
    mode = rng.choice(['prompt', 'prompt', 'slow', 'faulty'])
    if mode != 'prompt':
        recs, _ = discover(scn)
        reply, io = [], []
        for op in ops:
            if op['op'] != 'lcall':
                continue
            rec = recs[op['id']]
            x = rng.random()
            if mode == 'slow' and x < 0.6:
                reply.append({'at': [op['id'], 1], 'delay': [rng.choice([1, 2, 50, 99, 100])]})
            elif mode == 'faulty' and x < 0.5:
                k = rng.choice(['drop', 'err', 'drop_request', 'raise', 'stale'])
                if k == 'raise' and rec['io']:
                    io.append({'at': [op['id'], rng.randint(1, min(2, len(rec['io'])))], 'kind': 'raise',
                               'exc': rng.choice(EXC_ALL)})
                elif k == 'err':
                    reply.append({'at': [op['id'], 1], 'err': 'bang'})
                elif k == 'drop_request':
                    reply.append({'at': [op['id'], 1], 'drop_request': True})
                elif k == 'stale':
                    # (a substituted line must not itself claim a firmware version)
                    reply.append({'at': [op['id'], 1], 'stale': {'text': rng.choice(GATE_STALE) + '\r\n',
                                                                 'instead': True}})
                else:
                    reply.append({'at': [op['id'], 1], 'drop': 'all'})
        scn['faults'] = {'reply': reply, 'io': io}
    return scn


def gen(rng, idx):
    r = rng.random()
    if r < 0.55:
        return gen_connect(rng, idx)
    if r < 0.75:
        return gen_order(rng, idx)
    return gen_gates(rng, idx)


# ---------------------------------------------------------------------------
# sweep

ORDER_FW = [[2, 9, 9], [2, 10, 0], [2, 5, 5], [2, 5, 10], [2, 6, 0], [2, 2, 3], [2, 2, 10], [3, 0, 2], [3, 0, 10],
            [3, 10, 0], [10, 0, 0], [3, 0, 1], [2, 99, 99], [1, 10, 10]]
ORDER_THR = ORDER_FW + [[2, 5, 4], [2, 5, 6], [2, 6, 1], [2, 2, 2], [3, 0, 3], [3, 1, 0], [9, 9, 9], [2, 9, 10]]


def sweep_cells(tier):
    cells = [['order_legacy', i] for i in range(len(ORDER_FW))]
    cells += [['order_e3', i] for i in range(len(ORDER_FW))]
    cells += [['gates', i] for i in range(len(ORDER_FW))]
    kinds = ['old', 'min', 'min-1', 'multi', 'foreign', 'silent', 'open_fails', 'open_busy', 'open_denied', 'absent',
             'v2_99', 'short2', 'short1', 'short_ok']
    cells += [['connect', k] for k in kinds]
    cells += [['swap_gate', i] for i in range(len(SWAP_PAIRS))]
    cells += [['two_ports', i] for i in range(len(SWAP_PAIRS))]
    cells += [['swap_connect', k] for k in ('old', 'min-1', 'foreign', 'silent', 'multi_ok')]
    cells += [['raised_min', k] for k in range(3)]
    return cells


SWAP_PAIRS = [([2, 8, 1], [2, 5, 3]), ([2, 5, 3], [2, 8, 1]), ([2, 6, 0], [2, 5, 10]), ([2, 10, 0], [2, 2, 2]),
              ([2, 2, 2], [2, 10, 0]), ([3, 0, 2], [2, 1, 9])]


def _swap_gate(x):
    fw_a, fw_b = SWAP_PAIRS[x]
    port = '/dev/ttyACM0'
    b0 = ebb_spec(port, fw=fw_a, nick='A', style='linux')
    b1 = ebb_spec(port, fw=fw_b, nick='B', style='linux')
    calls = [lcall('ebb_motion.servo_timeout', [{'slot': 0}, 60000]),
             lcall('ebb_motion.queryVoltage', [{'slot': 0}]),
             lcall('ebb_serial.query_nickname', [{'slot': 0}]),
             lcall('ebb_serial.write_nickname', [{'slot': 0}, 'Bob']),
             lcall('ebb_serial.min_version', [{'slot': 0}, '2.6.0']),
             lcall('ebb_serial.min_version', [{'slot': 0}, '2.5.5'])]
    for c in calls:
        ops = [{'op': 'lopen', 'slot': 0, 'port': port}, dict(c), dict(c),
               lcall('ebb_serial.closePort', [{'slot': 0}]),
               {'op': 'env', 'what': 'replace_device', 'port': port, 'spec': b1},
               {'op': 'lopen', 'slot': 0, 'port': port}, dict(c), dict(c)]
        yield {'prop': PROP, 'world': {'boards': [dict(b0)]}, 'ops': mk_ops(ops), 'faults': {}, 'snap_dev': False}


def _two_ports(x):
    """A gated call answered by one board, then the same call on another port whose board is of another
    firmware and whose version probe fails: nothing learnt on the first port may leak to the second."""
    fw_a, fw_b = SWAP_PAIRS[x]
    b0 = ebb_spec('/dev/ttyACM0', fw=fw_a, nick='A', style='linux')
    b1 = ebb_spec('/dev/ttyACM1', fw=fw_b, nick='B', style='linux')
    calls = [('ebb_motion.servo_timeout', [60000]), ('ebb_motion.servo_timeout', [0, 1]),
             ('ebb_motion.queryVoltage', []), ('ebb_serial.query_nickname', []),
             ('ebb_serial.write_nickname', ['Bob']), ('ebb_serial.reboot', []),
             ('ebb_serial.min_version', ['2.6.0']), ('ebb_serial.min_version', ['2.2.3'])]
    for f, a in calls:
        ops = [{'op': 'lopen', 'slot': 0, 'port': b0['port']}, {'op': 'lopen', 'slot': 1, 'port': b1['port']},
               lcall(f, [{'slot': 0}] + a), lcall(f, [{'slot': 1}] + a), lcall(f, [{'slot': 1}] + a)]
        base = {'prop': PROP, 'world': {'boards': [dict(b0), dict(b1)]}, 'ops': mk_ops(ops), 'faults': {},
                'snap_dev': False}
        yield base
        for rf in ({'drop': 'all'}, {'err': 'bang'}, {'drop_request': True},
                   {'stale': {'text': 'OK\r\n', 'instead': True}}, {'stale': {'text': '\r\n', 'instead': True}}):
            yield dict(base, faults={'reply': [dict(rf, at=[3, 1])]})
        for k_ in (1, 2):
            for exc in ('SerialException', 'OSError'):
                yield dict(base, faults={'io': [{'at': [3, k_], 'kind': 'raise', 'exc': exc}]})


def _swap_connect(kind):
    MIN = min_supported()
    port = '/dev/ttyACM0'
    good = ebb_spec(port, fw=list(MIN), nick='Good', style='linux')
    new = ebb_spec(port, fw=[2, 8, 1], nick='New', style='linux')
    if kind == 'min-1':
        t = list(MIN)
        if t[2] > 0:
            t[2] -= 1
        elif t[1] > 0:
            t[1], t[2] = t[1] - 1, 99
        else:
            t = [t[0] - 1, 99, 99]
        new['fw'] = t
    elif kind == 'multi_ok':
        new['fw'] = [MIN[0], MIN[1] + 10, 0]
    elif kind in ('foreign', 'silent'):
        new['kind'] = kind
        new['desc'] = 'EiBotBoard'
        new['hwid'] = 'USB VID:PID=04D8:FD92 LOCATION=2-1'
    tail = [call(0, 'min_version', ['3.0.2']), call(0, 'xy_move', [1, 2, 3]), call(0, 'query', ['QS']),
            call(0, 'var_write', [1, 2])]
    for first, second in ((good, new), (new, good)):
        ops = [{'op': 'new', 'obj': 0}]
        c = call(0, 'connect')
        c['nth'] = 1
        ops += [c] + [dict(t) for t in tail] + [call(0, 'disconnect'),
                                                {'op': 'env', 'what': 'replace_device', 'port': port, 'spec': dict(second)}]
        c = call(0, 'connect')
        c['nth'] = 2
        ops += [c] + [dict(t) for t in tail]
        base = {'prop': PROP, 'world': {'boards': [dict(first)]}, 'ops': mk_ops(ops), 'faults': {}, 'snap_dev': False}
        yield base
        cid = [o['id'] for o in base['ops'] if o.get('m') == 'connect'][1]
        for rf in ({'drop': 'all'}, {'delay': [1]}, {'stale': {'text': 'OK\r\n', 'instead': True}}):
            f1 = dict(rf, at=[cid, 1])
            yield dict(base, faults={'reply': [f1]})
            yield dict(base, faults={'reply': [f1, dict(rf, at=[cid, 2])]})


def sweep_expand(cell):
    MIN = min_supported()
    what, x = cell
    if what == 'order_legacy':
        fw = ORDER_FW[x]
        b0 = ebb_spec('/dev/ttyACM0', fw=fw, nick='L', style='linux')
        ops = [{'op': 'lopen', 'slot': 0, 'port': b0['port']}]
        for thr in ORDER_THR:
            ops.append(lcall('ebb_serial.min_version', [{'slot': 0}, fstr(thr)]))
        yield {'prop': PROP, 'world': {'boards': [b0]}, 'ops': mk_ops(ops), 'faults': {}, 'snap_dev': False}
        return
    if what == 'order_e3':
        fw = ORDER_FW[x]
        if tuple(fw) < MIN:
            return
        b0 = ebb_spec('/dev/ttyACM0', fw=fw, nick='E', style='linux')
        ops = [{'op': 'new', 'obj': 0}, call(0, 'connect')]
        for thr in ORDER_THR:
            ops.append(call(0, 'min_version', [fstr(thr)]))
        yield {'prop': PROP, 'world': {'boards': [b0]}, 'ops': mk_ops(ops), 'faults': {}, 'snap_dev': False}
        return
    if what == 'swap_gate':
        for scn in _swap_gate(x):
            yield scn
        return
    if what == 'raised_min':
        want = [[MIN[0], MIN[1], MIN[2] + 8], [MIN[0], MIN[1] + 1, 0], [MIN[0] + 1, 0, 0]][x]
        for fw in ([MIN[0], MIN[1], MIN[2]], [want[0], want[1], max(0, want[2] - 1)] if want[2] else
                   [MIN[0], MIN[1], MIN[2] + 10], list(want), [want[0], want[1], want[2] + 1]):
            spec = ebb_spec('/dev/ttyACM0', fw=fw, nick='R', style='linux')
            tail = [call(0, 'xy_move', [1, 2, 3]), call(0, 'query', ['QS']), call(0, 'var_write', [1, 2])]
            ops = [{'op': 'new', 'obj': 0, 'min_version': fstr(want)}]
            for n in (1, 2):
                c = call(0, 'connect')
                c['nth'] = n
                ops += [c] + [dict(t) for t in tail]
            ops += [call(0, 'disconnect')]
            c = call(0, 'connect')
            c['nth'] = 3
            ops += [c] + [dict(t) for t in tail]
            yield {'prop': PROP, 'world': {'boards': [spec]}, 'ops': mk_ops(ops), 'faults': {}, 'snap_dev': False}
        return
    if what == 'two_ports':
        for scn in _two_ports(x):
            yield scn
        return
    if what == 'swap_connect':
        for scn in _swap_connect(x):
            yield scn
        return
    if what == 'gates':
        fw = ORDER_FW[x]
        b0 = ebb_spec('/dev/ttyACM0', fw=fw, nick='G', style='linux')
        base_ops = [{'op': 'lopen', 'slot': 0, 'port': b0['port']}]
        calls = [lcall('ebb_motion.servo_timeout', [{'slot': 0}, 60000]),
                 lcall('ebb_motion.servo_timeout', [{'slot': 0}, 0, 1]),
                 lcall('ebb_motion.queryVoltage', [{'slot': 0}]),
                 lcall('ebb_serial.query_nickname', [{'slot': 0}]),
                 lcall('ebb_serial.write_nickname', [{'slot': 0}, 'Bob']),
                 lcall('ebb_serial.reboot', [{'slot': 0}])]
        for c in calls:
            ops = mk_ops([dict(o) for o in base_ops] + [dict(c)])
            base = {'prop': PROP, 'world': {'boards': [b0]}, 'ops': ops, 'faults': {}, 'snap_dev': False}
            yield base
            for rf in ({'delay': [1]}, {'delay': [100]}, {'drop': 'all'}, {'err': 'bang'}, {'drop_request': True},
                       {'stale': {'text': 'OK\r\n', 'instead': True}}):
                f = dict(rf)
                f['at'] = [1, 1]
                yield dict(base, faults={'reply': [f]})
            for k_ in (1, 2):
                for exc in EXC_ALL:
                    yield dict(base, faults={'io': [{'at': [1, k_], 'kind': 'raise', 'exc': exc}]})
        return
    # connect family
    kind = x
    spec = ebb_spec('/dev/ttyACM0', fw=list(MIN), nick='C', style='linux')
    if kind == 'old':
        spec['fw'] = [2, 8, 1]
    elif kind == 'min-1':
        t = list(MIN)
        if t[2] > 0:
            t[2] -= 1
        elif t[1] > 0:
            t[1] -= 1
            t[2] = 99
        else:
            t = [t[0] - 1, 99, 99]
        spec['fw'] = t
    elif kind == 'multi':
        spec['fw'] = [MIN[0], MIN[1], MIN[2] + 8 if MIN[2] + 8 >= 10 else 10]
    elif kind == 'v2_99':
        spec['fw'] = [2, 99, 99]
    elif kind == 'short2':
        spec['fw'] = [MIN[0], MIN[1]] if MIN[2] > 0 else [MIN[0], max(0, MIN[1] - 1)]     # e.g. "3.0" < 3.0.2
    elif kind == 'short1':
        spec['fw'] = [MIN[0]] if (MIN[1], MIN[2]) > (0, 0) else [MIN[0] - 1]              # e.g. "3"  < 3.0.2
    elif kind == 'short_ok':
        spec['fw'] = [MIN[0], MIN[1] + 1]                                                   # e.g. "3.1" >= 3.0.2
    elif kind in ('foreign', 'silent'):
        spec['kind'] = kind
        spec['desc'] = 'EiBotBoard'
        spec['hwid'] = 'USB VID:PID=04D8:FD92 LOCATION=2-1'
    elif kind == 'open_fails':
        spec['open_fails'] = True
    elif kind in ('open_busy', 'open_denied'):
        spec['open_fails'] = True
        spec['open_errno'] = 16 if kind == 'open_busy' else 13
    elif kind == 'absent':
        spec['plugged'] = False
    world = {'boards': [spec]}
    tail = [call(0, 'xy_move', [1, 2, 3]), call(0, 'query', ['QS']), call(0, 'var_write', [1, 2]),
            call(0, 'query_statusbyte'), call(0, 'command', ['EM,1,1']), call(0, 'write_nickname', ['Zed'])]
    ops = [{'op': 'new', 'obj': 0}]
    for n in range(1, 4):
        c = call(0, 'connect', ['C'] if n == 2 and kind not in ('absent',) else [])      # 2nd attempt: by name tag
        c['nth'] = n
        ops.append(c)
        ops += [dict(t) for t in tail]
    ops.append(call(0, 'disconnect'))
    c = call(0, 'connect')
    c['nth'] = 4
    ops.append(c)
    ops += [dict(t) for t in tail]
    mk_ops(ops)
    base = {'prop': PROP, 'world': world, 'ops': ops, 'faults': {}, 'snap_dev': False}
    yield base
    recs, _ = discover(base)
    rec = recs[1]
    if rec['io']:
        n_verify = rec['io'].index('read') + 1 if 'read' in rec['io'] else len(rec['io'])
        # every exception / unplug up to and including the first verification read, and inside the second try
        for k_ in range(1, n_verify + 1):
            for exc in EXC_SERIAL:
                yield dict(base, faults={'io': [{'at': [1, k_], 'kind': 'raise', 'exc': exc}]})
            yield dict(base, faults={'io': [{'at': [1, k_], 'kind': 'unplug'}]})
        for exc in EXC_SERIAL:
            for k_ in (n_verify + 1, n_verify + 2):
                yield dict(base, faults={'reply': [{'at': [1, 1], 'drop': 'all'}],
                                         'io': [{'at': [1, k_], 'kind': 'raise', 'exc': exc}]})
    import random
    rng = random.Random('c15-sweep')
    for plan in ['late1', 'late_both', 'late2_only', 'absent1', 'absent_both', 'nonebb1', 'nonebb_both', 'err1']:
        for rep in range(3):
            io, reply = handshake_faults(rng, plan, 1, 4)
            yield dict(base, faults={'io': io, 'reply': reply})
