"""
C05 - EBB3 command/query framing and fault handling.

Oracle computed from the scenario and the simulated link's own schedule of reply
lines (never from the code under test): see DESIGN.md section 7, C05.
"""

import copy

from common import (V, pair_faults, raise_pairs, E3_METHODS, E3_NAMES, E3_CANON, EXC_ALL, EXC_SERIAL, IGNORED_NAMES, CMD_TEXTS, QRY_TEXTS,
                    failish, req_name, decorate, wrong_line, simple_world, mk_ops, call, discover,
                    single_faults, with_faults, reply_fault)

PROP = 'C05'
LEVEL = 'exploration'
N_QUICK = 72000
N_THOROUGH = 3000000
WALL_QUICK = 100
WALL_THOROUGH = 1500
RETRY = 25            # the property's stated number of tolerated empty reads
SETTLE = 16           # reads tolerated after the outcome is decided (draining stray lines)

REACH_FOCUS = {'ebb3_serial': None, 'ebb3_motion': None}

RULE = ("Scenario = world (one supported EBB with unique RAM / step / voltage payloads) + episodes of "
        "[new object, connect, 1..10 request-method calls, disconnect] + a positional fault plan. "
        "Sweep part: every registered request method x every canonical argument shape x every I/O ordinal of the "
        "call x every exception class, and x every request ordinal x {reply lost, request lost, error line of both "
        "shapes, wrong-name line instead / in front, 1 / 25 / 26 empty reads}. Random part: fuzzed request strings "
        "(three name syntaxes, whitespace decoration) and reply streams with 1..3 faults or delays. "
        "Non-trivial = a request of the checked op consumed a delayed, faulty or raising reply stream. "
        "Distinct = (method, argument shape class, fault kind, request/I-O ordinal, outcome class).")

ASSUMPTIONS = [
    "SimSerial renders pyserial semantics: complete lines or nothing on timeout; exceptions are pyserial's own classes",
    "SimBoard future-syntax replies: '<NAME>[,payload]\\n'; error lines '!8 Err: ...' or '<NAME>,Err: ...'",
    "partial lines and non-ASCII bytes are not injected (outside the property's stated reply classes)",
    "for reboot()/bootload() and request names RB/R/BL only 'does not raise, returns bool/None' is demanded",
    "query_statusbyte is not required to retry empty reads; with 1..25 empty reads either outcome is accepted",
]

FW_OK = [[3, 0, 2], [3, 0, 3], [3, 1, 0], [3, 10, 2], [4, 0, 0]]

SERIAL_ONLY = ('reboot', 'bootload')      # methods that promise to contain only SerialException


# ---------------------------------------------------------------------------
# expectations

def first_line(req, budget=RETRY):
    """The line the host must take as the reply: first scheduled line, provided it is
    preceded by at most `budget` empty reads.  Returns (line or None, empties)."""
    if not req['seen'] or not req['sched']:
        return None, None
    arrival, text, tag = req['sched'][0]
    T = req['T'] or 1000000
    empties = max(0, (arrival - req['t']) // T)
    if empties > budget:
        return None, empties
    return text.strip(), empties


def success_rule(name, line):
    return line is not None and line.startswith(name) and 'Err:' not in line


def payload(name, line):
    rest = line[len(name):]
    if rest.startswith(','):
        rest = rest[1:]
    return rest


def board_before(hist, i, port):
    """Device state snapshot before op index i for the given port."""
    if i == 0:
        return None
    devs = hist.ops[i - 1]['dev']
    for d, meta in zip(devs, hist.devices):
        if meta['port'] == port:
            return d
    return None


def expected_value(m, a, k, st):
    """Independent transcription of what each wrapper must return on success, from
    the board model's state `st` before the call.  Returns (known?, value)."""
    if m == 'var_read':
        return True, st['ram'][a[0]]
    if m == 'var_read_int32':
        return True, int.from_bytes(bytes(st['ram'][a[0]:a[0] + 4]), 'big', signed=True)
    if m == 'motors_query_enabled':
        res = {16: 1, 8: 2, 4: 3, 2: 4, 1: 5}
        code = {1: 16, 2: 8, 3: 4, 4: 2, 5: 1}[st['mode']]
        return True, {'tuple': [res[code] if st['en1'] else 0, res[code] if st['en2'] else 0]}
    if m == 'query_steps':
        return True, {'tuple': list(st['steps'])}
    if m == 'dio_b_read':
        return True, bool(st['pins'].get('B%d' % a[0], 0))
    if m in ('var_write', 'var_write_int32', 'write_nickname', 'command'):
        return True, True
    if m in ('query_nickname', 'timed_pause', 'xy_move', 'abs_move', 'motors_disable', 'motors_enable',
             'clear_steps', 'clear_accumulators', 'pen_lower', 'pen_raise', 'dio_b_config', 'dio_b_set',
             'pen_pos_down', 'pen_pos_up', 'pen_rate_down', 'pen_rate_up', 'servo_timeout'):
        return True, None
    return False, None


def needs_request(m, a, k):
    """Does this call, on a connected error-free object, have a request to transmit at all?"""
    if m == 'timed_pause':
        n = a[0] if a else k.get('pause_time', 0)
        return isinstance(n, int) and n >= 1
    if m in ('command', 'query'):
        return bool(a and isinstance(a[0], str) and a[0].strip())
    if m == 'write_nickname':
        return bool(a and isinstance(a[0], str))
    return True


def check(scn, hist):
    out = []
    if hist.hang:
        last = hist.ops[-1] if hist.ops else None
        m = last['op'].get('m', '?') if last else '?'
        out.append(V(PROP, 'read_budget', m, last['id'] if last else None, 'run did not terminate: ' + hist.hang))
        return out
    specs = {b['port']: b for b in scn['world']['boards']}
    prev_objs = []
    for i, rec in enumerate(hist.ops):
        op = rec['op']
        objs = rec.get('objs') or []
        if op['op'] == 'call':
            # a failure is recorded as *the object's* error: no other object's err may change
            for j, (po, no) in enumerate(zip(prev_objs, objs)):
                if j != op['obj'] and po is not None and no is not None and po['err'] != no['err']:
                    out.append(V(PROP, 'isolation', op['m'], rec['id'],
                                 'err of object %d changed from %r to %r by a call on object %d'
                                 % (j, po['err'], no['err'], op['obj'])))
        prev_objs = objs
        if op['op'] != 'call' or op['m'] not in E3_METHODS:
            continue
        b, a_ = rec['before'], rec['after']
        if b is None or b['port'] is None or b['err'] is not None or not b['port_open']:
            continue                      # not a connected, error-free object: C04's domain
        m = op['m']
        args = op.get('a', [])
        kw = op.get('k', {})
        oid = rec['id']
        fired = rec['faults_fired']
        raised_here = [f for f in fired if f[0] in ('raise', 'unplug', 'dead')]
        soft = m in SERIAL_ONLY and any(f[0] == 'raise' and f[2] in ('OSError', 'IOError', 'RuntimeError')
                                        for f in fired)
        # --- 4. no public request method raises
        if rec['exc'] is not None and not soft:
            out.append(V(PROP, 'raised', m, oid, '%s: %s' % (rec['exc'], rec['exc_msg'])))
            continue
        if soft:
            continue
        direct = m in ('command', 'query')
        text = args[0] if direct and args and isinstance(args[0], str) else None
        # --- 1. framing of direct requests: trimmed text + exactly one CR, exactly once
        if text is not None:
            want = text.strip() + '\r'
            got = rec['wire'].get(b['port'], '')
            # any I/O call of this request that raised (a write, or a flush / reset the code may issue before
            # it) can leave the request untransmitted or transmitted in part
            write_faulted = bool(raised_here)
            other = {p: w for p, w in rec['wire'].items() if p != b['port'] and w}
            if other:
                out.append(V(PROP, 'wire', m, oid, 'bytes on another port: %r' % other))
            # a write that raises may have been preceded by another write of the same request (a request
            # handed over in two pieces): what did get out must then be a prefix of the request
            if got != want and not (write_faulted and want.startswith(got)):
                out.append(V(PROP, 'wire', m, oid, 'sent %r, expected %r' % (got, want)))
                continue
        # --- 3. read budget per request
        seg = None
        segs = []
        for ev in rec['trace']:
            if ev[0] == 'w':
                seg = [ev[2], 0, 0]
                segs.append(seg)
            elif seg is not None:
                seg[1] += 1
                if ev[2] == '':
                    seg[2] += 1
        # "waits through up to 25 empty reads" fixes when a request may still succeed (success_rule below), not
        # how many reads a request may make once its fate is decided: a few settling reads after a failure are
        # harmless.  What must not happen is a wait that goes on and on.
        for s in segs:
            if s[1] > RETRY + 1 + SETTLE:
                out.append(V(PROP, 'read_budget', m, oid, '%d blocking reads after %r' % (s[1], s[0])))
        # --- 2./5. outcome
        ignored = False
        failures = []
        undecided = False
        if m in ('reboot', 'bootload'):
            # raw write + close; nothing is read back.  Only: returns a bool, does not raise.
            if not isinstance(rec['ret'], bool):
                out.append(V(PROP, 'fail_value', m, oid, 'returned %r' % (rec['ret'],)))
            continue
        for r_i, req in enumerate(rec['requests']):
            name = req_name(req['text'])
            budget = 0 if m == 'query_statusbyte' else RETRY
            line, empties = first_line(req, RETRY)
            if m == 'query_statusbyte' and line is not None and empties and empties >= 1:
                undecided = True          # retrying is allowed but not demanded here
            if not success_rule(name, line):
                failures.append((r_i, 'timeout' if line is None else 'bad_reply', name))
        for f in raised_here:
            failures.append((None, f[0] + '_' + f[1], None))
        if m == 'command' and text is not None and req_name(text).lower() in IGNORED_NAMES and raised_here:
            ignored = True        # (command() only: query() records the failure for these names as for any other)
        err_after = a_['err'] is not None
        if ignored:
            if not (rec['ret'] is None or isinstance(rec['ret'], bool)):
                out.append(V(PROP, 'fail_value', m, oid, 'returned %r after ignored link error' % (rec['ret'],)))
            continue
        if failures:
            if not err_after:
                out.append(V(PROP, 'err_not_recorded', m, oid, 'failures %r but err is None' % (failures,)))
            if not failish(rec['ret']):
                out.append(V(PROP, 'fail_value', m, oid, 'failures %r but returned %r' % (failures, rec['ret'])))
            continue
        if undecided:
            if err_after and not failish(rec['ret']):
                out.append(V(PROP, 'fail_value', m, oid, 'err recorded but returned %r' % (rec['ret'],)))
            if err_after:
                continue
        # success expected
        if err_after:
            out.append(V(PROP, 'success_rule', m, oid,
                         'conforming replies %r but err recorded: %r' % ([q['sched'] for q in rec['requests']],
                                                                         a_['err'])))
            continue
        st = board_before(hist, i, b['port'])
        if not rec['requests'] and needs_request(m, args, kw) and not raised_here:
            out.append(V(PROP, 'wire', m, oid, 'the call returned %r without transmitting its request' % (rec['ret'],)))
            continue
        if m == 'query' and text is not None:
            if not rec['requests']:
                out.append(V(PROP, 'wire', m, oid, 'no request reached the board'))
                continue
            req = rec['requests'][0]
            line, _ = first_line(req)
            want = payload(req_name(text), line)
            if rec['ret'] != want:
                out.append(V(PROP, 'query_payload', m, oid, 'reply %r: returned %r, expected %r'
                             % (line, rec['ret'], want)))
        elif m == 'query_statusbyte':
            want = st['status'] if st is not None else specs[b['port']].get('status', 0x3E)
            if rec['ret'] != want:
                out.append(V(PROP, 'attribution', m, oid, 'returned %r, board status %r' % (rec['ret'], want)))
        elif m == 'query_voltage':
            thr = args[0] if args and args[0] is not None else kw.get('threshold')
            thr = 250 if thr is None else thr
            want = (st['voltage'] if st is not None else specs[b['port']].get('voltage', 300)) >= thr
            if rec['ret'] is not want:
                out.append(V(PROP, 'attribution', m, oid, 'returned %r, expected %r' % (rec['ret'], want)))
        elif m == 'query_current':
            sp = specs[b['port']]
            want = {'tuple': [sp.get('current', 512), sp.get('voltage', 300)]}
            if st is not None:
                want = {'tuple': [st['current'], st['voltage']]}
            if rec['ret'] != want:
                out.append(V(PROP, 'attribution', m, oid, 'returned %r, expected %r' % (rec['ret'], want)))
        elif st is not None:
            knownv, want = expected_value(m, args, kw, st)
            if knownv and want is None and rec['ret'] is not False:
                pass        # a helper without a documented result may return whatever it likes on success
                            # (True, the value it stored ...) - only False would report a failure that was none
            elif knownv and rec['ret'] != want:      # (equality only: 1 for True is not a wrong value)
                out.append(V(PROP, 'attribution', m, oid, 'returned %r, expected %r' % (rec['ret'], want)))
    return out


def classify(scn, hist):
    keys = []
    for rec in hist.ops:
        op = rec['op']
        if op['op'] != 'call' or op['m'] not in E3_METHODS:
            continue
        b = rec['before']
        if b is None or b['port'] is None or b['err'] is not None:
            continue
        m = op['m']
        shape = '%d/%s' % (len(op.get('a', [])), ','.join(sorted(op.get('k', {}))))
        for f in rec['faults_fired']:
            keys.append('%s|%s|%s_%s:%s@%d|%s' % (m, shape, f[0], f[1], f[2], f[3],
                                                   'F' if failish(rec['ret']) else 'V'))
        for r_i, req in enumerate(rec['requests']):
            plan = req.get('plan')
            if plan:
                kind = ','.join(sorted(k for k in plan if k != 'at'))
                d = plan.get('delay', [0])[0] if plan.get('delay') else 0
                dcls = '0' if d == 0 else ('1-24' if d < 25 else str(d) if d <= 27 else '28+')
                keys.append('%s|%s|%s|d%s|r%d|%s' % (m, shape, kind, dcls, r_i,
                                                     'F' if failish(rec['ret']) else 'V'))
    return keys


def observe(scn, hist, st):
    for rec in hist.ops:
        if rec['op']['op'] == 'call':
            st['sets']['methods_called'].add(rec['op']['m'])
            if rec['faults_fired'] or any(q.get('plan') for q in rec['requests']):
                st['sets']['methods_faulted'].add(rec['op']['m'])


# ---------------------------------------------------------------------------
# complete single-fault sweep

def base_scenario(m, a, k, fw=(3, 0, 2)):
    import random
    world = simple_world(random.Random('c05-sweep'), fw=fw, style='linux')
    ops = mk_ops([{'op': 'new', 'obj': 0}, call(0, 'connect'), call(0, 'var_write', [9, 5]),
                  call(0, m, a, k)])
    return {'prop': PROP, 'world': world, 'ops': ops, 'faults': {}}


def sweep_cells(tier):
    cells = []
    for m in E3_NAMES:
        for ci in range(len(E3_CANON[m])):
            cells.append([m, ci])
    # the same single-fault and two-fault sweeps with replies that are already buffered when write() returns
    for m in ('command', 'query', 'query_statusbyte', 'var_read_int32', 'motors_enable', 'write_nickname'):
        cells.append([m, 0, 'instant'])
    cells.append(['_history', 0])
    return cells


def history_scenarios():
    """Short multi-step histories in which state kept by the host side would show: the same request twice
    with the board's answer changing in between, and a second object failing after a first one has."""
    import random
    world = simple_world(random.Random('c05-hist'), fw=(3, 0, 2), style='linux')
    port = world['boards'][0]['port']

    def setenv(**st):
        return {'op': 'env', 'what': 'set', 'port': port, 'state': st}
    ram2 = list(range(100, 132))
    seqs = [
        [call(0, 'query_current'), setenv(voltage=111, current=222), call(0, 'query_current'),
         call(0, 'query_voltage', [250]), setenv(voltage=900, current=5), call(0, 'query_voltage', [250]),
         call(0, 'query_current')],
        [call(0, 'var_write', [7, 3]), call(0, 'var_read', [3]), setenv(ram=ram2), call(0, 'var_read', [3]),
         call(0, 'var_read_int32', [2]), call(0, 'var_write_int32', [-2, 2]), setenv(ram=ram2),
         call(0, 'var_read_int32', [2])],
        [call(0, 'query_statusbyte'), setenv(status=0x81), call(0, 'query_statusbyte'), call(0, 'query_steps'),
         setenv(steps=[5, -6]), call(0, 'query_steps'), call(0, 'motors_query_enabled'),
         setenv(en1=1, en2=0, mode=3), call(0, 'motors_query_enabled'), call(0, 'dio_b_read', [2]),
         setenv(pins={'B2': 1}), call(0, 'dio_b_read', [2])],
        [call(0, 'query', ['QL,4']), setenv(ram=ram2), call(0, 'query', ['QL,4']), call(0, 'query', [' QL,4 '])],
    ]
    for seq in seqs:
        ops = mk_ops([{'op': 'new', 'obj': 0}, call(0, 'connect')] + [dict(o) for o in seq])
        yield {'prop': PROP, 'world': world, 'ops': ops, 'faults': {}}
    # one object, some 1500 exchanges, idle gaps in between, replies already buffered when write() returns
    import random as _r
    r2 = _r.Random('c05-long')
    ops = [{'op': 'new', 'obj': 0}, call(0, 'connect')]
    for k in range(600):
        m = r2.choice(['var_read', 'query_steps', 'query_voltage', 'motors_query_enabled', 'clear_steps', 'var_write',
                       'query', 'command', 'query_statusbyte', 'pen_raise', 'var_read_int32'])
        a, kw = E3_METHODS[m](r2)
        if m == 'command' and req_name(a[0]).lower() in ('rb', 'bl', 'r'):
            a = ['CS']
        ops.append(call(0, m, a, kw))
        if k % 40 == 7:
            ops.append({'op': 'env', 'what': 'idle', 'seconds': r2.choice([2, 9, 600])})
    for lat in ('half', 'instant'):
        yield {'prop': PROP, 'world': dict(world, reply_latency=lat), 'ops': mk_ops([dict(o) for o in ops]),
               'faults': {}, 'io_cap': 100000}
    # a second object must record its own failure although another object failed before it
    for kind in ('drop', 'err_bang', 'stale_instead', 'raise'):
        for m2, a2 in (('command', ['SM,10,1,1']), ('query', ['QS']), ('var_write', [1, 2]), ('query_voltage', [])):
            ops = mk_ops([{'op': 'new', 'obj': 0}, call(0, 'connect'), call(0, 'command', ['CS']),
                          call(0, 'disconnect'), {'op': 'new', 'obj': 1}, call(1, 'connect'), call(1, m2, a2)])
            scn = {'prop': PROP, 'world': world, 'ops': ops, 'faults': {}}
            f = {}
            for oid in (2, 6):
                if kind == 'raise':
                    f.setdefault('io', []).append({'at': [oid, 2], 'kind': 'raise', 'exc': 'SerialException'})
                else:
                    name = req_name(['CS', a2[0] if m2 in ('command', 'query') else
                                     {'var_write': 'SL', 'query_voltage': 'QC'}.get(m2, 'X')][oid == 6])
                    f.setdefault('reply', []).append(reply_fault(oid, 1, kind, name))
            yield with_faults(scn, f)


def sweep_expand(cell):
    if cell[0] == '_history':
        for scn in history_scenarios():
            yield scn
        return
    m, ci = cell[:2]
    a, k = E3_CANON[m][ci]
    base = base_scenario(m, a, k)
    if len(cell) > 2:
        base['world'] = dict(base['world'], reply_latency=cell[2])
    recs, _ = discover(base)
    rec = recs[3]
    excs = EXC_SERIAL if m in SERIAL_ONLY else EXC_ALL
    yield base
    kinds = ['drop', 'drop_request', 'err_bang', 'err_named', 'stale_instead', 'stale_hex', 'stale_front',
             'stale_near', 'stale_case', 'late26', 'd25', 'd1']
    if m == 'query':
        kinds += ['glued', 'glued2']       # only the raw query: wrappers are not asked to decode such data
    for tag, faults in single_faults(rec, exc_classes=excs, reply_kinds=kinds):
        yield with_faults(base, faults)
    # two faults in one call: empty reads inside the budget, then an exception / unplug at any later I/O
    if m not in SERIAL_ONLY:
        for faults in pair_faults(base, 3):
            yield with_faults(base, faults)
        for faults in raise_pairs(rec):
            yield with_faults(base, faults)


# ---------------------------------------------------------------------------
# random scenarios

def gen_request(rng):
    r = rng.random()
    if r < 0.30:
        return call(0, 'query', [decorate(rng, rng.choice(QRY_TEXTS))])
    if r < 0.55:
        return call(0, 'command', [decorate(rng, rng.choice(CMD_TEXTS))])
    m = rng.choice(E3_NAMES)
    if m in ('reboot', 'bootload') and rng.random() < 0.7:
        m = rng.choice(['var_read', 'query_voltage', 'query_current', 'query_statusbyte', 'write_nickname',
                        'motors_query_enabled', 'query_steps', 'dio_b_read', 'var_read_int32'])
    a, k = E3_METHODS[m](rng)
    return call(0, m, a, k)


def gen_two(rng, idx):
    """Two connection objects on two boards, requests interleaved: every value must come from the object's
    own board (payloads are unique per board), and a failure on one object must not touch the other."""
    from common import ebb_spec, PORT_NAMES, distinct_ram
    style = rng.choice(['mac', 'linux', 'win'])
    boards = []
    for i in range(2):
        spec = ebb_spec(PORT_NAMES[style][i], fw=rng.choice(FW_OK), nick='Two%d' % i, style=style)
        spec['prior'] = {'ram': distinct_ram(rng), 'steps': [rng.randint(-9999, 9999), rng.randint(-9999, 9999)],
                         'en1': rng.randint(0, 1), 'en2': rng.randint(0, 1), 'mode': rng.randint(1, 5)}
        spec['voltage'] = rng.choice([0, 100, 249, 250, 251, 300, 1023])
        spec['current'] = rng.randint(0, 1023)
        spec['status'] = rng.randint(0, 255)
        boards.append(spec)
    ops = [{'op': 'new', 'obj': 0}, {'op': 'new', 'obj': 1},
           call(0, 'connect', [boards[0]['port']]), call(1, 'connect', [boards[1]['port']])]
    for _ in range(rng.randint(4, 16)):
        op = gen_request(rng)
        if op['m'] in ('reboot', 'bootload') or (op['m'] == 'command' and req_name(op['a'][0]).lower() in ('rb', 'bl')):
            continue
        op['obj'] = rng.randrange(2)
        ops.append(op)
    mk_ops(ops)
    scn = {'prop': PROP, 'world': {'boards': boards}, 'ops': ops, 'faults': {}, 'cfg': {'mode': 'two'}}
    faults = {'io': [], 'reply': []}
    recs, _ = discover(scn)
    reqops = [op for op in ops if op['op'] == 'call' and op['m'] not in ('connect', 'disconnect')]
    for op in reqops:
        rec = recs[op['id']]
        for r in range(1, len(rec['requests']) + 1):
            if rng.random() < 0.25:
                faults['reply'].append({'at': [op['id'], r], 'delay': [rng.choice([1, 2, 24, 25])]})
    if reqops and rng.random() < 0.5:
        # one object fails somewhere in the middle; the other must go on undisturbed
        op = rng.choice(reqops)
        rec = recs[op['id']]
        if rec['requests'] and rng.random() < 0.6:
            r = rng.randint(1, len(rec['requests']))
            faults['reply'] = [f for f in faults['reply'] if f['at'] != [op['id'], r]]
            faults['reply'].append(reply_fault(op['id'], r, rng.choice(['drop', 'err_bang', 'err_named', 'stale_instead',
                                                                       'stale_near', 'late26']),
                                               req_name(rec['requests'][r - 1]['text'])))
        elif rec['io']:
            faults['io'].append({'at': [op['id'], rng.randint(1, len(rec['io']))], 'kind': 'raise',
                                 'exc': rng.choice(EXC_ALL)})
    scn['faults'] = faults
    return scn


def gen(rng, idx):
    if rng.random() < 0.12:
        return gen_two(rng, idx)
    mode = 'conforming' if rng.random() < 0.4 else 'faulty'
    world = simple_world(rng, fw=rng.choice(FW_OK))
    world['reply_latency'] = rng.choice(['half', 'half', 'instant'])
    ops = []
    n_ep = rng.randint(1, 3)
    enabled = rng.sample(['drop', 'drop_request', 'err_bang', 'err_named', 'stale_instead', 'stale_hex',
                          'stale_front', 'stale_near', 'late', 'raise', 'unplug'], rng.randint(1, 4))
    targets = []
    for ep in range(n_ep):
        ops.append({'op': 'new', 'obj': ep})
        ops.append(call(ep, 'connect'))
        n = rng.randint(1, 8)
        for j in range(n):
            if rng.random() < 0.06:
                ops.append({'op': 'env', 'what': 'idle', 'seconds': rng.choice([1, 3, 30, 3600])})
            if rng.random() < 0.12:
                ops.append({'op': 'env', 'what': 'set', 'port': world['boards'][0]['port'],
                            'state': {'voltage': rng.choice([0, 100, 249, 250, 251, 300, 1023]),
                                      'current': rng.randint(0, 1023), 'status': rng.randint(0, 255)}})
            op = gen_request(rng)
            op['obj'] = ep
            if op['m'] in ('reboot', 'bootload') or (op['m'] == 'command' and
                                                      req_name(op['a'][0]).lower() in ('rb', 'bl')):
                if mode == 'conforming':
                    continue
                ops.append(op)
                break
            ops.append(op)
        targets.append(len(ops) - 1)
        ops.append(call(ep, 'disconnect'))
        ops.append({'op': 'env', 'what': 'replug', 'port': world['boards'][0]['port']})
        ops.append({'op': 'env', 'what': 'set', 'port': world['boards'][0]['port'],
                    'state': dict(world['boards'][0].get('prior', {}))})
    mk_ops(ops)
    scn = {'prop': PROP, 'world': world, 'ops': ops, 'faults': {}, 'cfg': {'mode': mode, 'enabled': enabled}}
    recs, _ = discover(scn)
    faults = {'io': [], 'reply': []}
    # delays inside the conforming budget on random requests
    lat = rng.choice(['prompt', 'slow', 'edges'])
    for op in ops:
        if op['op'] != 'call' or op['m'] in ('connect', 'disconnect'):
            continue
        rec = recs[op['id']]
        for r in range(1, len(rec['requests']) + 1):
            x = rng.random()
            if lat == 'prompt' and x > 0.1:
                continue
            d = rng.choice([1, 2, 24, 25, 25]) if lat == 'edges' or x < 0.3 else rng.randint(1, 25)
            if rng.random() < 0.6:
                faults['reply'].append({'at': [op['id'], r], 'delay': [d]})
    if mode == 'faulty':
        # one fault in the last request op of each episode (a fresh object per failure)
        for t in targets:
            op = ops[t]
            if op['op'] != 'call' or op['m'] in ('connect', 'disconnect'):
                continue
            rec = recs[op['id']]
            kind = rng.choice(enabled)
            if kind in ('raise', 'unplug'):
                if not rec['io']:
                    continue
                kpos = rng.randint(1, len(rec['io']) + (1 if rng.random() < 0.1 else 0))
                if kind == 'raise':
                    excs = EXC_SERIAL if op['m'] in SERIAL_ONLY else EXC_ALL
                    faults['io'].append({'at': [op['id'], kpos], 'kind': 'raise', 'exc': rng.choice(excs)})
                else:
                    faults['io'].append({'at': [op['id'], kpos], 'kind': 'unplug'})
            else:
                if not rec['requests']:
                    continue
                r = rng.randint(1, len(rec['requests']))
                name = req_name(rec['requests'][r - 1]['text'])
                faults['reply'] = [f for f in faults['reply'] if f['at'] != [op['id'], r]]
                if kind == 'late':
                    faults['reply'].append({'at': [op['id'], r], 'delay': [rng.choice([26, 26, 27, 40])]})
                elif kind == 'stale_near':
                    k2 = rng.choice(['stale_near', 'stale_case', 'glued', 'glued2']) if op['m'] == 'query' \
                        else rng.choice(['stale_near', 'stale_case', 'stale_prev'])
                    if k2 == 'stale_prev':
                        # the bare name of an earlier request of this object arrives instead (a late acknowledgement)
                        prev = [req_name(q['text']) for o2 in ops if o2['op'] == 'call' and o2['id'] < op['id'] and
                                o2.get('obj') == op.get('obj') for q in recs[o2['id']]['requests']]
                        prev = [x for x in prev if not x.startswith(name) and not name.startswith(x)]
                        if prev:
                            faults['reply'].append({'at': [op['id'], r],
                                                    'stale': {'text': prev[-1] + '\n',
                                                              'instead': rng.random() < 0.5}})
                        else:
                            faults['reply'].append(reply_fault(op['id'], r, 'stale_near', name))
                    else:
                        faults['reply'].append(reply_fault(op['id'], r, k2, name))
                elif kind in ('stale_instead', 'stale_front', 'stale_hex'):
                    w = wrong_line(rng, name)
                    f = {'at': [op['id'], r], 'stale': {'text': w + '\n', 'd': rng.choice([0, 0, 1, 25])}}
                    if kind != 'stale_front':
                        f['stale']['instead'] = True
                    faults['reply'].append(f)
                else:
                    f = reply_fault(op['id'], r, kind, name)
                    if rng.random() < 0.3:
                        f['delay'] = [rng.choice([1, 24, 25])]
                    faults['reply'].append(f)
    scn['faults'] = faults
    return scn
