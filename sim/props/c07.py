"""
C07 - legacy serial primitives: one write, aligned replies, no exception on faults.

A legacy-syntax board model answers ebb_serial.command / ebb_serial.query calls;
the fault plan delays every awaited line by 0..100 empty reads, loses replies or
OK lines, substitutes error lines, and raises at any write or read.
DESIGN.md section 7, C07.
"""

from common import (V, pair_faults, raise_pairs, EXC_ALL, ebb_spec, PORT_NAMES, mk_ops, lcall, discover, single_faults, with_faults,
                    failish)

PROP = 'C07'
LEVEL = 'exploration'
N_QUICK = 40000
N_THOROUGH = 2000000
WALL_QUICK = 100
WALL_THOROUGH = 1500
RETRY = 100

REACH_FOCUS = {'ebb_serial': ['query', 'command'], 'ebb_motion': ['QueryPRGButton', 'queryEBBLV', 'query_steps', 'query_enable_motors']}

RULE = ("Scenario = 1..2 legacy-syntax boards with open ports + a sequence of 2..30 ebb_serial.command / "
        "ebb_serial.query calls (OK-terminated queries, the documented no-OK queries, commands; a few ebb_motion "
        "query helpers built on them) with state-changing commands interleaved so that payloads differ per request, "
        "+ a positional fault plan: per awaited line 0..100 empty reads, whole reply lost, OK line lost, request "
        "lost, error line (with or without trailing OK), exception at any write/read, unplug. Sweep part: "
        "{command, OK-query, no-OK query} x every I/O ordinal x every exception class, x every reply fault, x "
        "delays {0,1,100} on each awaited line, each followed by three further requests that must be answered with "
        "their own data. Non-trivial = a checked request consumed at least one empty read or fault. Distinct = "
        "(request kind, fault kind, ordinal / delay class, kind of the following request).")

ASSUMPTIONS = [
    "conforming delays are at most 100 empty reads per awaited line; later (stale) lines are not injected",
    "a read/write that raises loses the lines still in flight on that link (a glitching link does not deliver them later)",
    "legacy error lines are '!8 Err: ...' with or without a following OK (both variants explored)",
    "query results are compared after strip(): returning the line with or without its CR LF is accepted",
]

NO_OK = ('a', 'i', 'mr', 'pi', 'qm', 'qg', 'v')
OK_QUERIES = ['QB\r', 'QP\r', 'QS\r', 'QC\r', 'QL\r', 'QT\r', 'QE\r', 'QL,3\r', ' QS\r', 'qb\r']
NOOK_QUERIES = ['V\r', 'v\r', 'QG\r', 'QM\r', 'I\r', 'A\r', 'MR\r', 'PI,B,1\r', 'PI,B,3\r', 'pi,B,2\r', ' V\r', 'QG \r']
COMMANDS = ['EM,0,0\r', 'EM,1,1\r', 'SP,1\r', 'SP,0,100\r', 'TP\r', 'SC,4,100\r', 'CS\r', 'PO,B,1,1\r', 'PO,B,3,1\r',
            'PO,B,1,0\r', 'XM,10,2,3\r', 'ST,{bot}\r', 'ST,a}b{0}\r', 'SL,{1}\r', 'ST,100%s\r', 'RB\r']
ODD_QUERIES = ['QL,{0}\r', 'QL,%d\r', 'PI,{B},1\r']      # the board answers these with an error line


def kind_of(text):
    name = text.split(',')[0].strip().lower()
    return name


def awaited(text, is_query):
    """Number of lines the documented reply stream of this request has."""
    if not is_query:
        return 1
    return 1 if kind_of(text) in NO_OK else 2


def check(scn, hist):
    out = []
    if hist.hang:
        last = hist.ops[-1] if hist.ops else None
        out.append(V(PROP, 'read_budget', last['op'].get('f', '?').split('.')[-1] if last else '?',
                     last['id'] if last else None, 'run did not terminate: ' + hist.hang))
        return out
    specs = {b['port']: b for b in scn['world']['boards']}
    slot_port = {}
    prev_pending = {}
    prev_dev = None
    for i, rec in enumerate(hist.ops):
        op = rec['op']
        if op['op'] == 'lopen':
            slot_port[op['slot']] = op['port']
        if op['op'] != 'lcall':
            prev_pending = rec['pending']
            prev_dev = rec['dev']
            continue
        mod, fn = op['f'].split('.')
        oid = rec['id']
        args = op.get('a', [])
        port = None
        if args and isinstance(args[0], dict) and 'slot' in args[0]:
            port = slot_port.get(args[0]['slot'])
        wire_all = ''.join(rec['wire'].values())
        if fn in ('command', 'query') and mod == 'ebb_serial':
            text = args[1] if len(args) > 1 else None
            if port is None or text is None:
                # a request with no port or no text does nothing
                if rec['exc'] is not None:
                    out.append(V(PROP, 'raised', fn, oid, '%s: %s' % (rec['exc'], rec['exc_msg'])))
                elif rec['ret'] is not None or rec['io'] or wire_all:
                    out.append(V(PROP, 'noop', fn, oid, 'ret=%r io=%r wire=%r' % (rec['ret'], rec['io'], wire_all)))
                prev_pending = rec['pending']
                prev_dev = rec['dev']
                continue
            is_q = fn == 'query'
            fired = rec['faults_fired']
            write_faulted = any(f[1] == 'write' for f in fired)
            # 2. never raises
            if rec['exc'] is not None:
                out.append(V(PROP, 'raised', fn, oid, '%s: %s' % (rec['exc'], rec['exc_msg'])))
                prev_pending = rec['pending']
                prev_dev = rec['dev']
                continue
            # 1. the request is written exactly once, verbatim
            got = rec['wire'].get(port, '')
            if got != text and not (write_faulted and text.startswith(got)):
                out.append(V(PROP, 'wire', fn, oid, 'sent %r, expected %r' % (got, text)))
            extra = {p: w for p, w in rec['wire'].items() if p != port and w}
            if extra:
                out.append(V(PROP, 'wire', fn, oid, 'bytes on another port: %r' % extra))
            # 5. read budget: never more than 1 + 100 consecutive empty reads
            run_len = 0
            worst = 0
            for ev in rec['trace']:
                if ev[0] == 'r' and ev[2] == '':
                    run_len += 1
                    worst = max(worst, run_len)
                else:
                    run_len = 0
            if worst > (RETRY + 1) * awaited(text, is_q) + 16:      # (+ a few settling reads once all is decided)
                out.append(V(PROP, 'read_budget', fn, oid, '%d consecutive empty reads' % worst))
            clean = not prev_pending.get(port)
            req = rec['requests'][0] if rec['requests'] else None
            # nominal reply lines the board produced for THIS request and their delays
            lines = []
            if req is not None and req['seen']:
                t_prev = req['t']
                T = req['T'] or 1000000
                for arrival, textline, tag in req['sched']:
                    lines.append((textline, (arrival - t_prev) // T))
                    t_prev = arrival
            conforming = all(d <= RETRY for _, d in lines)
            if not is_q:
                if rec['ret'] is not None:
                    out.append(V(PROP, 'returns', fn, oid, 'command returned %r' % (rec['ret'],)))
            else:
                # 3. query returns text
                if not isinstance(rec['ret'], str):
                    out.append(V(PROP, 'returns_text', fn, oid, 'returned %r' % (rec['ret'],)))
                elif clean and conforming:
                    data = lines[0][0].strip() if lines else ''
                    got_s = rec['ret'].strip()
                    if fired:
                        okset = ('', data)
                        if got_s not in okset:
                            out.append(V(PROP, 'alignment', fn, oid, 'after %r returned %r, this request\'s data is %r'
                                         % (fired, rec['ret'], data)))
                    elif got_s != data:
                        out.append(V(PROP, 'alignment' if got_s else 'lost_reply', fn, oid,
                                     'returned %r, the data line of this request is %r (lines %r)'
                                     % (rec['ret'], data, lines)))
            # 4. alignment is kept: nothing of this request's reply is left for the next one
            errored = req is not None and (bool((req.get('plan') or {}).get('err')) or
                                           any('Err:' in ln for ln, _ in lines))
            # (whether real firmware follows an error line with OK is not known to this model; both
            #  variants are explored, and what is left unread after an error line is not judged)
            if clean and conforming and not fired and not errored and rec['pending'].get(port):
                out.append(V(PROP, 'alignment', fn, oid, '%d reply line(s) of this request left unread'
                             % rec['pending'][port]))
            # a documented single-line reply must not be followed by a full wait for a line that never comes
            if clean and conforming and not fired and req is not None and req['seen']:
                need = awaited(text, is_q)
                if len(lines) >= need:
                    tail_empty = 0
                    for ev in reversed(rec['trace']):
                        if ev[0] == 'r' and ev[2] == '':
                            tail_empty += 1
                        else:
                            break
                    if tail_empty >= RETRY:
                        out.append(V(PROP, 'excess_wait', fn, oid,
                                     'complete reply %r consumed, then %d more empty reads' % (lines, tail_empty)))
        else:
            # helpers built on the primitives: never raise; value is the board's or a failure value
            if rec['exc'] is not None:
                out.append(V(PROP, 'raised', fn, oid, '%s: %s' % (rec['exc'], rec['exc_msg'])))
            elif port is not None and not rec['faults_fired'] and not prev_pending.get(port) \
                    and all(not q.get('plan') or set(q['plan']) <= {'at', 'delay'} for q in rec['requests']):
                dev = None
                if prev_dev is not None:
                    for d, meta in zip(prev_dev, hist.devices):
                        if meta['port'] == port:
                            dev = d
                want = helper_value(fn, dev)
                if want is not None and rec['ret'] != want[0]:
                    out.append(V(PROP, 'alignment', fn, oid, 'returned %r, board state says %r' % (rec['ret'], want[0])))
        prev_pending = rec['pending']
        prev_dev = rec['dev']
    return out


def helper_value(fn, dev):
    if dev is None:
        return None
    if fn == 'QueryPRGButton':
        return None
    if fn == 'queryEBBLV':
        return (dev['ram'][0],)
    if fn == 'query_steps':
        return ({'tuple': list(dev['steps'])},)
    return None


def classify(scn, hist):
    keys = []
    prev_kind = '-'
    for rec in hist.ops:
        op = rec['op']
        if op['op'] != 'lcall':
            continue
        fn = op['f'].split('.')[1]
        args = op.get('a', [])
        text = args[1] if len(args) > 1 and isinstance(args[1], str) else ''
        if fn == 'query':
            kind = 'q_nook' if kind_of(text) in NO_OK else 'q_ok'
        elif fn == 'command':
            kind = 'cmd'
        else:
            kind = fn
        tags = []
        for f in rec['faults_fired']:
            tags.append('%s_%s:%s@%d' % (f[0], f[1], f[2], min(f[3], 6)))
        for q in rec['requests']:
            plan = q.get('plan')
            if plan:
                ks = sorted(k for k in plan if k not in ('at', 'delay'))
                ds = plan.get('delay', [])
                dc = ['0' if d == 0 else '1' if d == 1 else '2-98' if d < 99 else str(d) for d in ds]
                tags.append('%s|d=%s' % (','.join(ks) + (':' + str(plan.get('drop')) if 'drop' in plan else ''),
                                         '/'.join(dc)))
        if tags:
            keys.append('%s|%s' % (kind, ';'.join(tags)))
        if prev_kind != '-' and prev_kind.endswith('*'):
            keys.append('after:%s|%s' % (prev_kind, kind))
        prev_kind = kind + ('*' if tags else '')
    return keys


def observe(scn, hist, st):
    for rec in hist.ops:
        if rec['op']['op'] == 'lcall':
            n = sum(1 for x in rec['reads'] if x == '')
            if n >= 100:
                st['extra']['ops_with_100+_empty_reads'] += 1
            if n and rec['op']['f'].endswith('.query'):
                st['extra']['queries_through_retry_path'] += 1


# ---------------------------------------------------------------------------

def _world(n=1, err_ok=False, fw=(2, 8, 1), style='linux', nicks=None, eol='crlf'):
    boards = []
    for i in range(n):
        nick = 'Leg%d' % i if nicks is None else nicks[i]
        spec = ebb_spec(PORT_NAMES[style][i], fw=fw, nick=nick, style=style)
        spec['eol'] = eol
        spec['err_ok'] = err_ok
        spec['prior'] = {'ram': [11 + i] + [0] * 31, 'steps': [100 + i, -200 - i]}
        boards.append(spec)
    return {'boards': boards}


FOLLOW = [['ebb_serial.query', 'QS\r'], ['ebb_serial.query', 'V\r'], ['ebb_serial.command', 'EM,1,1\r'],
          ['ebb_serial.query', 'QL\r']]


def sweep_cells(tier):
    cells = []
    for kind, text in (('command', 'SM,10,1,2\r'), ('query', 'QS\r'), ('query', 'V\r'), ('query', 'PI,B,1\r'),
                       ('query', 'QG\r'), ('query', 'QL\r'), ('query', 'QM\r'), ('query', 'I\r'),
                       ('query', 'A\r'), ('query', 'MR\r'), ('query', 'QB\r'), ('query', 'QC\r'),
                       ('query', 'QP\r'), ('query', 'QT\r'), ('query', 'QE\r'), ('command', 'RB\r')):
        for err_ok in (False, True):
            for verbose in (True, False):
                cells.append([kind, text, err_ok, verbose])
    # a board without a nickname answers QT with a blank data line (then OK): still a data line
    cells.append(['query', 'QT\r', False, True, 'blank'])
    cells.append(['query', 'QT\r', True, False, 'blank'])
    for nick in ('OK', 'ok', '{n}', 'Err', 'Plot Err: 2', 'Err:42'):
        cells.append(['query', 'QT\r', False, True, nick])
    for text in ('ST,{bot}\r', 'ST,a}b{0}\r', 'SL,{1}\r', 'ST,100%s\r'):
        cells.append(['command', text, False, True])
        cells.append(['command', text, True, False])
    for text in ODD_QUERIES:
        cells.append(['query', text, False, True])
    for k in range(len(AFTER_TIMEOUT)):
        cells.append(['_after_timeout', k])
    # the same requests through ports with another read timeout (the budget is counted in reads, not seconds)
    for c in list(cells):
        if len(c) == 4 and c[2] is False and c[3] is True and c[1] in ('SM,10,1,2\r', 'QS\r', 'V\r', 'QB\r'):
            cells.append(c + [2.0])
            cells.append(c + [0.25])
    # the same requests against boards whose lines end LF only / whose data lines end LF CR
    for c in list(cells):
        if len(c) == 4 and c[2] is False and c[3] is True:
            cells.append(c + ['lf'])
            cells.append(c + ['nlcr'])
    return cells


# what a complete timeout (or an exception) in one request must not do to later requests
AFTER_TIMEOUT = [('command', 'SM,10,1,2\r'), ('query', 'QB\r'), ('query', 'V\r'), ('query', 'QS\r')]


def after_timeout(k):
    kind, text = AFTER_TIMEOUT[k]
    world = _world(2)
    p0, p1 = world['boards'][0]['port'], world['boards'][1]['port']
    nl = awaited(text, kind == 'query')
    firsts = [{'reply': [{'at': [2, 1], 'drop': 'all'}]},
              {'io': [{'at': [2, 2], 'kind': 'raise', 'exc': 'SerialException'}]},
              {'io': [{'at': [2, 1], 'kind': 'raise', 'exc': 'SerialTimeoutException'}]}]
    if nl == 2:
        firsts.append({'reply': [{'at': [2, 1], 'drop': [1]}]})          # data arrives, its OK never does
    for first in firsts:
        for slot2 in (0, 1):
            for kind2, text2 in (('command', 'EM,1,1\r'), ('query', 'QB\r'), ('query', 'QS\r'), (kind, text)):
                nl2 = awaited(text2, kind2 == 'query')
                for d in (0, 1, 11, 50, 100):
                    for j in range(nl2):
                        ds = [0] * nl2
                        ds[j] = d
                        ops = [{'op': 'lopen', 'slot': 0, 'port': p0}, {'op': 'lopen', 'slot': 1, 'port': p1},
                               lcall('ebb_serial.' + kind, [{'slot': 0}, text]),
                               lcall('ebb_serial.' + kind2, [{'slot': slot2}, text2])]
                        for f, t in FOLLOW:
                            ops.append(lcall(f, [{'slot': slot2}, t]))
                        fl = {'reply': list(first.get('reply', [])) + [{'at': [3, 1], 'delay': ds}],
                              'io': list(first.get('io', []))}
                        yield {'prop': PROP, 'world': world, 'ops': mk_ops(ops), 'faults': fl}


def sweep_expand(cell):
    if cell[0] == '_after_timeout':
        for scn in after_timeout(cell[1]):
            yield scn
        return
    kind, text, err_ok, verbose = cell[:4]
    eol = 'crlf'
    if len(cell) > 4 and cell[4] in ('lf', 'nlcr'):
        eol = cell[4]
        cell = cell[:4]
    tmo = 1.0
    if len(cell) > 4 and isinstance(cell[4], (int, float)):
        tmo = float(cell[4])
        cell = cell[:4]
    world = _world(1, err_ok, nicks=[{'blank': ''}.get(cell[4], cell[4])] if len(cell) > 4 else None, eol=eol)
    port = world['boards'][0]['port']
    ops = [{'op': 'lopen', 'slot': 0, 'port': port, 'timeout': tmo},
           lcall('ebb_serial.command', [{'slot': 0}, 'SL,77\r']),
           lcall('ebb_serial.' + kind, [{'slot': 0}, text, verbose])]
    for f, t in FOLLOW:
        ops.append(lcall(f, [{'slot': 0}, t]))
    base = {'prop': PROP, 'world': world, 'ops': mk_ops(ops), 'faults': {}}
    recs, _ = discover(base)
    rec = recs[2]
    yield base
    for tag, faults in single_faults(rec, exc_classes=EXC_ALL, reply_kinds=['drop', 'drop_request', 'err_bang']):
        yield with_faults(base, faults)
    # two faults in one call: empty reads inside the budget on either awaited line, then an exception /
    # unplug at any later I/O event (inside either retry loop)
    for faults in pair_faults(base, 2, delays=(1, 100), exc_classes=('SerialException', 'RuntimeError')):
        yield with_faults(base, faults)
    for faults in raise_pairs(rec):
        yield with_faults(base, faults)
    nl = awaited(text, kind == 'query')
    delays = [0, 1, 2, 99, 100]
    if nl == 1:
        for d in delays:
            yield with_faults(base, {'reply': [{'at': [2, 1], 'delay': [d]}]})
    else:
        for d0 in delays:
            for d1 in delays:
                yield with_faults(base, {'reply': [{'at': [2, 1], 'delay': [d0, d1]}]})
            yield with_faults(base, {'reply': [{'at': [2, 1], 'delay': [d0], 'drop': [1]}]})


def gen(rng, idx):
    nb = rng.choice([1, 1, 1, 2])
    style = rng.choice(['mac', 'linux', 'win'])
    fw = rng.choice([(2, 5, 5), (2, 6, 2), (2, 8, 1), (3, 0, 2)])
    world = _world(nb, err_ok=rng.random() < 0.5, fw=fw, style=style,
                   nicks=[rng.choice(['', 'Leg%d' % i, ' pad ', 'OK', 'ok', '{n}', 'Err', 'Plot Err: 2']) for i in range(nb)],
                   eol=rng.choice(['crlf', 'crlf', 'lf', 'nlcr']))
    ops = []
    for i in range(nb):
        # the caller owns the port object: its read timeout need not be the 1 s testPort() uses
        ops.append({'op': 'lopen', 'slot': i, 'port': world['boards'][i]['port'],
                    'timeout': rng.choice([1.0, 1.0, 1.0, 0.5, 2.0, 5.0, 0.05, 10.0])})
    n = rng.randint(2, 30)
    counter = 1
    for _ in range(n):
        s = rng.randrange(nb)
        r = rng.random()
        vb = rng.choice([True, True, False])
        extra = [vb] if rng.random() < 0.5 else []
        if r < 0.30:
            ops.append(lcall('ebb_serial.query', [{'slot': s}, rng.choice(OK_QUERIES)] + extra))
        elif r < 0.52:
            ops.append(lcall('ebb_serial.query', [{'slot': s}, rng.choice(NOOK_QUERIES)] + extra))
        elif r < 0.55:
            ops.append(lcall('ebb_serial.query', [{'slot': s}, rng.choice(ODD_QUERIES)] + extra))
        elif r < 0.70:
            ops.append(lcall('ebb_serial.command', [{'slot': s}, rng.choice(COMMANDS[:-1])] + extra))
        elif r < 0.80:
            counter += 1
            ops.append(lcall('ebb_serial.command', [{'slot': s}, 'SL,%d\r' % (counter * 7 % 256)] + extra))
        elif r < 0.88:
            counter += 1
            ops.append(lcall('ebb_serial.command', [{'slot': s}, 'SM,%d,%d,%d\r' % (counter, counter * 3, -counter)] + extra))
        elif r < 0.96:
            ops.append(lcall('ebb_motion.' + rng.choice(['QueryPRGButton', 'queryEBBLV', 'query_steps',
                                                         'query_enable_motors']), [{'slot': s}]))
        elif r < 0.98:
            ops.append(lcall('ebb_serial.' + rng.choice(['query', 'command']), [None, 'QS\r']))
        else:
            ops.append(lcall('ebb_serial.' + rng.choice(['query', 'command']), [{'slot': s}, None]))
    mk_ops(ops)
    scn = {'prop': PROP, 'world': world, 'ops': ops, 'faults': {}}
    recs, _ = discover(scn)
    faults = {'io': [], 'reply': []}
    profile = rng.choice(['prompt', 'slow', 'edges', 'edges'])
    enabled = rng.sample(['drop', 'drop_ok', 'drop_request', 'err', 'raise', 'unplug'], rng.randint(0, 3))
    p_fault = rng.choice([0.0, 0.05, 0.15, 0.3])
    for op in ops:
        if op['op'] != 'lcall':
            continue
        rec = recs[op['id']]
        if not rec['io']:
            continue
        for r_i, req in enumerate(rec['requests'], start=1):
            nl = len(req['lines'])
            ds = []
            for j in range(nl):
                x = rng.random()
                if profile == 'prompt':
                    d = 0 if x < 0.9 else rng.choice([1, 2])
                elif profile == 'slow':
                    d = rng.randint(0, 100)
                else:
                    d = rng.choice([0, 0, 0, 1, 1, 2, 50, 99, 100, 100])
                ds.append(d)
            f = None
            if enabled and rng.random() < p_fault:
                k = rng.choice(enabled)
                if k == 'drop':
                    f = {'at': [op['id'], r_i], 'drop': 'all'}
                elif k == 'drop_ok' and nl == 2:
                    f = {'at': [op['id'], r_i], 'drop': [1], 'delay': ds}
                elif k == 'drop_request':
                    f = {'at': [op['id'], r_i], 'drop_request': True}
                elif k == 'err':
                    f = {'at': [op['id'], r_i], 'err': 'bang', 'delay': ds[:1]}
                elif k == 'raise':
                    faults['io'].append({'at': [op['id'], rng.randint(1, len(rec['io']))], 'kind': 'raise',
                                         'exc': rng.choice(EXC_ALL)})
                elif k == 'unplug' and rng.random() < 0.2:
                    faults['io'].append({'at': [op['id'], rng.randint(1, len(rec['io']))], 'kind': 'unplug'})
            if f is None and any(ds):
                f = {'at': [op['id'], r_i], 'delay': ds}
            if f is not None:
                faults['reply'].append(f)
    scn['faults'] = faults
    return scn
