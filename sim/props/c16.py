"""
C16 - board-state round trips through the EBB3 layer are faithful.

The SimBoard is the reference model: after every op the oracle compares the
board's RAM / nickname / motor state with what the request must have produced,
and every read-back with what the model holds.  DESIGN.md section 7, C16.
"""

from common import (V, INT32_EDGES, EXC_ALL, ebb_spec, PORT_NAMES, distinct_ram, mk_ops, call, discover, failish,
                    pick_int, reply_fault, req_name, decorate)

PROP = 'C16'
LEVEL = 'exploration'
N_QUICK = 48000
N_THOROUGH = 1500000
WALL_QUICK = 100
WALL_THOROUGH = 1500

REACH_FOCUS = {'ebb3_serial': ['var_write', 'var_read', 'var_write_int32', 'var_read_int32', 'write_nickname', 'query_nickname'], 'ebb3_motion': ['motors_enable', 'motors_query_enabled', 'motors_disable']}

RULE = ("Scenario = one stateful firmware-3 board (prior RAM, prior motor state (en1, en2, mode) drawn from all 20 "
        "combinations) + a connected EBBMotionWrap + a history of 5..40 ops: var_write_int32 (values over all of int32, "
        "weighted to byte / sign boundaries; slots 0..28, overlapping ranges in any order), var_read_int32, var_write, "
        "var_read, write_nickname (padded names), query_nickname, motors_enable(r1, r2) with r in -2..8, "
        "motors_query_enabled, motors_disable, moves, and board power cycles with reconnect; reply latencies inside "
        "the retry budget; in the separate faulty configuration one fault inside a write or read. Sweep part: all 20 "
        "prior motor states x all 121 (r1, r2); int32 boundary values x slots {0,1,13,27,28}; nickname shapes. "
        "Non-trivial = a write followed by a read-back of the same cells, or motors_enable from a prior state whose "
        "mode differs from the requested one. Distinct = (value class, slot, prior motor state, clamped (c1,c2), "
        "op kind, latency class).")

ASSUMPTIONS = [
    "SimBoard semantics transcribed from the property statement and ebb3_motion docstrings: SL,v,i / QL,i store and "
    "return one byte 0..255 (other values are rejected with an error line); ST/QT nickname; EM,e1,e2 sets en1=(e1!=0), "
    "en2=(e2!=0), mode=e1 only when e1!=0; QE reports {0,1,2,4,8,16} per motor from (enabled, mode)",
    "nicknames are 0..16 printable characters without commas",
    "under an injected fault an op may fail; the board then holds the old or the new value of every byte",
]

QE_TO_RES = {16: 1, 8: 2, 4: 3, 2: 4, 1: 5}
RES_TO_QE = {1: 16, 2: 8, 3: 4, 4: 2, 5: 1}


def clamp(r):
    return max(0, min(5, int(r)))


def dev_for(hist, i, port):
    if i < 0:
        return None
    for d, meta in zip(hist.ops[i]['dev'], hist.devices):
        if meta['port'] == port:
            return d
    return None


def initial_state(scn, port):
    """Board state before the first op (power-on defaults overlaid with 'prior')."""
    from board import SimBoard
    for b in scn['world']['boards']:
        if b['port'] == port:
            return SimBoard(b).state()
    return None


ROUND_TRIP_OPS = ('var_write', 'var_read', 'var_write_int32', 'var_read_int32', 'write_nickname', 'query_nickname',
                  'motors_enable', 'motors_disable', 'motors_query_enabled')


def _faulty(rec):
    return bool(rec['faults_fired']) or any(q.get('plan') and (set(q['plan']) - {'at'}) for q in rec['requests'])


def check(scn, hist):
    out = []
    if hist.hang:
        last = hist.ops[-1] if hist.ops else None
        out.append(V(PROP, 'hang', last['op'].get('m', '?') if last else '?', last['id'] if last else None, hist.hang))
        return out
    clean_so_far = not scn.get('faults', {}).get('io') and not scn.get('faults', {}).get('reply') and \
        scn.get('cfg', {}).get('mode', 'conforming') == 'conforming' and \
        all(sp.get('kind', 'ebb') == 'ebb' and tuple(sp.get('fw', (3, 0, 2))) >= (3, 0, 2) and
            not sp.get('open_fails') and sp.get('plugged', True) for sp in scn['world']['boards'])
    for i, rec in enumerate(hist.ops):
        op = rec['op']
        if op['op'] == 'env' and op.get('what') not in ('idle', 'quiesce', 'set'):
            clean_so_far = False
        if op['op'] != 'call':
            continue
        m = op['m']
        b, a = rec['before'], rec['after']
        if _faulty(rec):
            clean_so_far = False
        if (clean_so_far and rec['exc'] is None and b['port'] is not None and b['err'] is not None and
                m in ROUND_TRIP_OPS):
            # nothing has gone wrong in this history (no injected fault, a conforming board of supported firmware
            # that answered every request in time) and the object is connected: a round trip that is refused
            # because of an error recorded out of nothing has not been faithful (wave 8)
            out.append(V(PROP, 'roundtrip_refused', m, rec['id'], 'fault-free history, connected object, yet '
                         '%s%r is refused with recorded error %r' % (m, tuple(op.get('a', [])), b['err'])))
            continue
        if m == 'connect' and b['port'] is None and b['err'] is None and a['port'] is not None:
            port = a['port']
        elif b['port'] is None or b['err'] is not None:
            continue
        else:
            port = b['port']
        before = dev_for(hist, i - 1, port) if i > 0 else initial_state(scn, port)
        after = dev_for(hist, i, port)
        if before is None or after is None:
            continue
        oid = rec['id']
        args = op.get('a', [])
        faulty = bool(rec['faults_fired']) or any(q.get('plan') and (set(q['plan']) - {'at', 'delay'} or
                                                                      any(d > 25 for d in q['plan'].get('delay', [])))
                                                  for q in rec['requests'])
        if rec['exc'] is not None:
            if not faulty:
                out.append(V(PROP, 'raised', m, oid, '%s: %s' % (rec['exc'], rec['exc_msg'])))
            continue
        if (not faulty and b['err'] is None and a['err'] is not None and
                m in ('var_write', 'var_read', 'var_write_int32', 'var_read_int32', 'write_nickname',
                      'query_nickname', 'motors_disable', 'motors_query_enabled')):
            # the board implements the documented commands and answered promptly: a round trip that ends in
            # a recorded error has not been faithful
            out.append(V(PROP, 'roundtrip_failed', m, oid, 'fault-free %s%r against a conforming board recorded %r'
                         % (m, tuple(args), a['err'])))
            continue
        if not faulty and m not in ('connect', 'reboot', 'bootload'):      # a restart clears the board's state
            about_ram = m in ('var_write', 'var_write_int32')
            about_nick = m == 'write_nickname'
            about_motors = m in ('motors_enable', 'motors_disable', 'xy_move', 'abs_move', 'timed_pause')
            if not about_ram and before['ram'] != after['ram']:
                j = [i for i in range(32) if before['ram'][i] != after['ram'][i]][0]
                out.append(V(PROP, 'side_effect', m, oid, '%s%r changed variable slot %d from %d to %d'
                             % (m, tuple(args), j, before['ram'][j], after['ram'][j])))
            if not about_nick and before['nick'] != after['nick']:
                out.append(V(PROP, 'side_effect', m, oid, '%s%r changed the nickname from %r to %r'
                             % (m, tuple(args), before['nick'], after['nick'])))
            if not about_motors and (before['en1'], before['en2'], before['mode']) != \
                    (after['en1'], after['en2'], after['mode']):
                out.append(V(PROP, 'side_effect', m, oid, '%s%r changed the motor state from %r to %r'
                             % (m, tuple(args), (before['en1'], before['en2'], before['mode']),
                                (after['en1'], after['en2'], after['mode']))))
        if m == 'var_write_int32':
            v, idx = args[0], args[1]
            want = list(v.to_bytes(4, 'big', signed=True))
            for j in range(32):
                old, new = before['ram'][j], after['ram'][j]
                if idx <= j < idx + 4:
                    w = want[j - idx]
                    if new != w and not (faulty and new == old):
                        out.append(V(PROP, 'ram_bytes', m, oid, 'slot %d holds %d after writing %d at %d (big-endian '
                                     'bytes %r, old value %d)' % (j, new, v, idx, want, old)))
                        break
                elif new != old:
                    out.append(V(PROP, 'ram_bytes', m, oid, 'slot %d changed from %d to %d by a write of slots %d..%d'
                                 % (j, old, new, idx, idx + 3)))
                    break
            if not faulty and rec['ret'] is not True:
                out.append(V(PROP, 'int32_roundtrip', m, oid, 'write of %d at %d returned %r (err=%r)'
                             % (v, idx, rec['ret'], a['err'])))
        elif m == 'var_write':
            v, idx = args[0], args[1]
            for j in range(32):
                old, new = before['ram'][j], after['ram'][j]
                if j == idx:
                    if new != v and not (faulty and new == old):
                        out.append(V(PROP, 'ram_bytes', m, oid, 'slot %d holds %d after writing %d' % (j, new, v)))
                elif new != old:
                    out.append(V(PROP, 'ram_bytes', m, oid, 'slot %d changed by a write to slot %d' % (j, idx)))
                    break
            if not faulty and rec['ret'] is not True:
                out.append(V(PROP, 'int32_roundtrip', m, oid, 'var_write returned %r' % (rec['ret'],)))
        elif m == 'var_read_int32':
            idx = args[0]
            want = int.from_bytes(bytes(before['ram'][idx:idx + 4]), 'big', signed=True)
            if faulty or a['err'] is not None:
                if not failish(rec['ret']) and rec['ret'] != want:
                    out.append(V(PROP, 'wrong_value_under_fault', m, oid, 'returned %r, board holds %d'
                                 % (rec['ret'], want)))
                elif a['err'] is not None and not failish(rec['ret']):
                    out.append(V(PROP, 'wrong_value_under_fault', m, oid, 'err recorded but returned %r' % (rec['ret'],)))
            elif rec['ret'] != want or isinstance(rec['ret'], bool):
                out.append(V(PROP, 'int32_roundtrip', m, oid, 'read at %d returned %r, board holds bytes %r = %d'
                             % (idx, rec['ret'], before['ram'][idx:idx + 4], want)))
        elif m == 'var_read':
            idx = args[0]
            want = before['ram'][idx]
            if faulty or a['err'] is not None:
                if not failish(rec['ret']) and rec['ret'] != want:
                    out.append(V(PROP, 'wrong_value_under_fault', m, oid, 'returned %r, board holds %d' % (rec['ret'], want)))
            elif rec['ret'] != want or isinstance(rec['ret'], bool):
                out.append(V(PROP, 'int32_roundtrip', m, oid, 'var_read(%d) returned %r, board holds %d'
                             % (idx, rec['ret'], want)))
        elif m == 'write_nickname':
            s = args[0]
            want = s.strip()
            if faulty:
                if after['nick'] not in (want, before['nick']):
                    out.append(V(PROP, 'nickname_roundtrip', m, oid, 'board nickname %r after writing %r'
                                 % (after['nick'], s)))
            else:
                if after['nick'] != want:
                    out.append(V(PROP, 'nickname_roundtrip', m, oid, 'board nickname %r after writing %r'
                                 % (after['nick'], s)))
                elif a['name'] != want or rec['ret'] is not True:
                    out.append(V(PROP, 'nickname_roundtrip', m, oid, 'object name %r, returned %r after writing %r'
                                 % (a['name'], rec['ret'], s)))
        elif m == 'connect':
            if (not faulty and rec['ret'] is True and a['err'] is None and b['port'] is None and
                    not any(q.get('plan') for q in rec['requests'])):
                want = after['nick'].strip()
                if want and a['name'] != want:
                    out.append(V(PROP, 'nickname_roundtrip', m, oid, 'after connect() the object holds name %r, the '
                                 'board\'s nickname is %r' % (a['name'], after['nick'])))
        elif m == 'query_nickname':
            if not faulty and a['err'] is None:
                want = before['nick'].strip()
                if want and a['name'] != want:
                    out.append(V(PROP, 'nickname_roundtrip', m, oid, 'object name %r, board nickname %r'
                                 % (a['name'], before['nick'])))
        elif m == 'motors_enable':
            if faulty:
                continue
            c1, c2 = clamp(args[0]), clamp(args[1])
            if a['err'] is not None:
                out.append(V(PROP, 'motor_state', m, oid, 'conforming board, yet error %r' % (a['err'],)))
                continue
            if after['en1'] != (1 if c1 else 0) or after['en2'] != (1 if c2 else 0):
                out.append(V(PROP, 'motor_state', m, oid, 'requested (%r,%r): board en1=%d en2=%d'
                             % (args[0], args[1], after['en1'], after['en2'])))
            else:
                want_mode = c1 if c1 else (c2 if c2 else None)
                if want_mode is not None and after['mode'] != want_mode:
                    out.append(V(PROP, 'motor_state', m, oid,
                                 'requested (%r,%r) from prior (en1=%d,en2=%d,mode=%d): board mode %d, expected %d'
                                 % (args[0], args[1], before['en1'], before['en2'], before['mode'], after['mode'],
                                    want_mode)))
        elif m == 'motors_disable':
            if not faulty and (after['en1'] or after['en2']):
                out.append(V(PROP, 'motor_state', m, oid, 'board en1=%d en2=%d after motors_disable'
                             % (after['en1'], after['en2'])))
        elif m == 'motors_query_enabled':
            want = {'tuple': [before['mode'] if before['en1'] else 0, before['mode'] if before['en2'] else 0]}
            if faulty or a['err'] is not None:
                if not failish(rec['ret']) and rec['ret'] != want:
                    out.append(V(PROP, 'wrong_value_under_fault', m, oid, 'returned %r, board state %r' % (rec['ret'], want)))
            elif rec['ret'] != want:
                out.append(V(PROP, 'motor_state', m, oid, 'reported %r, board has en1=%d en2=%d mode=%d'
                             % (rec['ret'], before['en1'], before['en2'], before['mode'])))
    return out


def vclass(v):
    if v in (0, 1, -1):
        return str(v)
    if v in (2147483647, -2147483648):
        return 'lim'
    n = abs(v)
    bits = n.bit_length()
    edge = (n & (n - 1)) == 0 or ((n + 1) & n) == 0
    return ('-' if v < 0 else '+') + 'b%d' % ((bits + 7) // 8) + ('e' if edge else '')


def classify(scn, hist):
    keys = []
    written = set()
    for i, rec in enumerate(hist.ops):
        op = rec['op']
        if op['op'] != 'call':
            continue
        b = rec['before']
        if b['port'] is None or b['err'] is not None:
            continue
        m = op['m']
        args = op.get('a', [])
        lat = 'slow' if any(x == '' for x in rec['reads']) else 'p'
        fl = 'F' if rec['faults_fired'] or any(q.get('plan') and set(q['plan']) - {'at', 'delay'}
                                               for q in rec['requests']) else ''
        if m == 'var_write_int32':
            written.update(range(args[1], args[1] + 4))
            keys.append('w32|%s|s%d|%s%s' % (vclass(args[0]), args[1], lat, fl))
        elif m == 'var_read_int32':
            if any(j in written for j in range(args[0], args[0] + 4)):
                keys.append('r32|s%d|%s|%s%s' % (args[0], 'full' if all(j in written for j in
                                                                      range(args[0], args[0] + 4)) else 'part', lat, fl))
        elif m == 'var_write':
            written.add(args[1])
            keys.append('w8|%d|%s' % (args[1], fl))
        elif m == 'var_read':
            if args[0] in written:
                keys.append('r8|%d|%s' % (args[0], fl))
        elif m == 'motors_enable':
            port = b['port']
            before = dev_for(hist, i - 1, port) if i > 0 else None
            if before is not None:
                c1, c2 = clamp(args[0]), clamp(args[1])
                keys.append('men|%d%d%d|%d,%d|%s%s' % (before['en1'], before['en2'], before['mode'], c1, c2, lat, fl))
        elif m in ('write_nickname', 'query_nickname'):
            keys.append('%s|%s|%s%s' % (m, 'pad' if args and args[0] != args[0].strip() else 'plain', lat, fl))
    return keys


def observe(scn, hist, st):
    for rec in hist.ops:
        if rec['op']['op'] == 'env' and rec['op']['what'] in ('replug', 'power_cycle'):
            st['extra']['board_power_cycles'] += 1


# ---------------------------------------------------------------------------

NICKS = ['Bob', ' Bob ', 'axi 7', '\tNextDraw_01\r\n', 'x', 'abcdefghijklmnop', '  A', 'Zed9  ', '', '   ',
         'BOB', 'bob', '  abcdefghijklmnop', 'abcdefghijklmnop  ', '   ABCDEFGHIJKLMNO ', 'Studio  East', 'Old', 'OLD',
         'prior name', 'Tango 2', 'Quill', 'T', 'Q,1', 'QT', 'Emma', 'a \t b', 'Errol', 'Egg Errand', 'Err', 'OK', '!x',
         '007', '0042', '1.0', '10.', '+7', '-0', '1e3', '42', '1_0', ' 7 ', '0x1F']


def world_for(rng, prior_motor=None, ram=None):
    style = rng.choice(['mac', 'linux', 'win'])
    spec = ebb_spec(PORT_NAMES[style][0], fw=rng.choice([[3, 0, 2], [3, 0, 3], [3, 1, 0]]),
                    nick=rng.choice(['', 'Old', 'Prior Name', ' Lead', 'Trail  ', '  both ']), style=style)
    pm = prior_motor or [rng.randint(0, 1), rng.randint(0, 1), rng.randint(1, 5)]
    spec['prior'] = {'en1': pm[0], 'en2': pm[1], 'mode': pm[2], 'ram': ram if ram is not None else distinct_ram(rng)}
    return {'boards': [spec]}


def gen_op(rng, slots_hot):
    r = rng.random()
    if r < 0.22:
        v = rng.choice(INT32_EDGES) if rng.random() < 0.6 else rng.randint(-2 ** 31, 2 ** 31 - 1)
        if rng.random() < 0.15:
            v = rng.choice([1, -1]) * (1 << rng.randint(0, 31)) + rng.choice([-1, 0, 1])
            v = max(-2 ** 31, min(2 ** 31 - 1, v))
        idx = rng.choice(slots_hot) if rng.random() < 0.7 else rng.randint(0, 28)
        return call(0, 'var_write_int32', [v, idx])
    if r < 0.42:
        idx = rng.choice(slots_hot) if rng.random() < 0.7 else rng.randint(0, 28)
        return call(0, 'var_read_int32', [idx])
    if r < 0.50:
        return call(0, 'var_write', [pick_int(rng, 0, 255, [0, 1, 127, 128, 255]), rng.randint(0, 31)])
    if r < 0.58:
        return call(0, 'var_read', [rng.randint(0, 31)])
    if r < 0.66:
        return call(0, 'write_nickname', [rng.choice(NICKS)])
    if r < 0.72:
        return call(0, 'query_nickname')
    if r < 0.86:
        return call(0, 'motors_enable', [rng.randint(-2, 8), rng.randint(-2, 8)])
    if r < 0.94:
        return call(0, 'motors_query_enabled')
    if r < 0.97:
        return call(0, 'motors_disable')
    return call(0, 'xy_move', [rng.randint(-50, 50), rng.randint(-50, 50), rng.randint(1, 100)])


def gen(rng, idx):
    world = world_for(rng)
    world['reply_latency'] = rng.choice(['half', 'half', 'instant'])
    port = world['boards'][0]['port']
    mode = 'conforming' if rng.random() < 0.75 else 'faulty'
    ops = [{'op': 'new', 'obj': 0}, call(0, 'connect')]
    base = rng.randint(0, 25)
    slots_hot = sorted(set(min(28, base + d) for d in (0, 1, 2, 3, 4)))
    n = rng.randint(5, 40)
    for _ in range(n):
        if rng.random() < 0.05:
            ops.append({'op': 'env', 'what': 'idle', 'seconds': rng.choice([1, 3, 10, 120, 4000])})
        if rng.random() < 0.04:
            ops.append(call(0, 'disconnect'))
            x = rng.random()
            if x < 0.5:
                ops.append({'op': 'env', 'what': 'replug', 'port': port})
            if x > 0.3:
                # somebody else renames the board (or it is a differently named board) while we are away
                ops.append({'op': 'env', 'what': 'set', 'port': port, 'state': {'nick': rng.choice(NICKS).strip()}})
            ops.append(call(0, 'connect'))
            continue
        ops.append(gen_op(rng, slots_hot))
    mk_ops(ops)
    scn = {'prop': PROP, 'world': world, 'ops': ops, 'faults': {}, 'cfg': {'mode': mode}}
    lat = rng.choice(['prompt', 'prompt', 'slow', 'edge'])
    if lat == 'prompt' and mode == 'conforming':
        return scn
    recs, _ = discover(scn)
    faults = {'io': [], 'reply': []}
    for op in ops:
        if op['op'] != 'call' or op['m'] in ('connect', 'disconnect'):
            continue
        rec = recs[op['id']]
        for r_i, req in enumerate(rec['requests'], start=1):
            if lat != 'prompt' and rng.random() < 0.4:
                d = rng.choice([1, 24, 25]) if lat == 'edge' else rng.randint(1, 25)
                faults['reply'].append({'at': [op['id'], r_i], 'delay': [d]})
    if mode == 'faulty':
        cands = [op for op in ops if op['op'] == 'call' and op['m'] not in ('connect', 'disconnect')
                 and recs[op['id']]['io']]
        if cands:
            op = rng.choice(cands)
            rec = recs[op['id']]
            if rng.random() < 0.5 and rec['requests']:
                r_i = rng.randint(1, len(rec['requests']))
                name = req_name(rec['requests'][r_i - 1]['text'])
                faults['reply'] = [f for f in faults['reply'] if f['at'] != [op['id'], r_i]]
                faults['reply'].append(reply_fault(op['id'], r_i, rng.choice(['drop', 'drop_request', 'err_bang',
                                                                             'err_named', 'stale_instead', 'stale_hex',
                                                                             'late26']), name))
            else:
                faults['io'].append({'at': [op['id'], rng.randint(1, len(rec['io']))], 'kind': 'raise',
                                     'exc': rng.choice(EXC_ALL)})
    scn['faults'] = faults
    return scn


def sweep_cells(tier):
    cells = []
    for en1 in (0, 1):
        for en2 in (0, 1):
            for mode in (1, 2, 3, 4, 5):
                cells.append(['motors', [en1, en2, mode]])
    for s in (0, 1, 13, 27, 28):
        cells.append(['int32', s])
    cells.append(['nick', 0])
    cells.append(['long', 0])
    cells.append(['long', 1])
    cells.append(['past', 0])
    cells.append(['past', 1])
    return cells


def sweep_expand(cell):
    import random
    rng = random.Random('c16-sweep')
    what, x = cell
    if what == 'motors':
        for r1 in range(-2, 9):
            for r2 in range(-2, 9):
                world = world_for(rng, prior_motor=x)
                ops = mk_ops([{'op': 'new', 'obj': 0}, call(0, 'connect'), call(0, 'motors_query_enabled'),
                              call(0, 'motors_enable', [r1, r2]), call(0, 'motors_query_enabled')])
                yield {'prop': PROP, 'world': world, 'ops': ops, 'faults': {}}
    elif what == 'past':
        # an object with a harmless past: requests made while it was not connected (x = 0: before the first
        # connect() and between disconnect() and connect(); x = 1: after reboot()), then fault-free round trips
        trips = [call(0, 'var_write_int32', [-2, 5]), call(0, 'var_read_int32', [5]), call(0, 'var_write', [7, 1]),
                 call(0, 'var_read', [1]), call(0, 'write_nickname', ['Past']), call(0, 'query_nickname'),
                 call(0, 'motors_enable', [0, 2]), call(0, 'motors_query_enabled'), call(0, 'motors_disable')]
        pre = [call(0, 'var_read_int32', [0]), call(0, 'var_write_int32', [1, 0]), call(0, 'write_nickname', ['No']),
               call(0, 'query_nickname'), call(0, 'motors_enable', [1, 1]), call(0, 'motors_query_enabled'),
               call(0, 'command', ['EM,0,0']), call(0, 'query', ['QG'])]
        if x == 0:
            for k in range(len(pre)):
                world = world_for(rng)
                ops = [{'op': 'new', 'obj': 0}, dict(pre[k]), call(0, 'connect')] + [dict(o) for o in trips] + \
                      [call(0, 'disconnect'), dict(pre[(k + 1) % len(pre)]), call(0, 'connect')] + [dict(o) for o in trips]
                yield {'prop': PROP, 'world': world, 'ops': mk_ops(ops), 'faults': {}}
        else:
            for closer in ('reboot', 'bootload'):
                world = world_for(rng)
                ops = [{'op': 'new', 'obj': 0}, call(0, 'connect')] + [dict(o) for o in trips[:2]] + \
                      [call(0, closer), {'op': 'env', 'what': 'quiesce'}, call(0, 'connect')] + [dict(o) for o in trips]
                yield {'prop': PROP, 'world': world, 'ops': mk_ops(ops), 'faults': {}}
    elif what == 'long':
        # one object used for a long time: well over a thousand exchanges, with idle gaps of seconds to hours,
        # values written before unrelated requests and read back after them
        r2 = random.Random('c16-long-%d' % x)
        world = world_for(r2)
        world['reply_latency'] = 'instant' if x else 'half'
        ops = [{'op': 'new', 'obj': 0}, call(0, 'connect')]
        for k in range(170):
            v = r2.choice(INT32_EDGES) if k % 3 else r2.randint(-2 ** 31, 2 ** 31 - 1)
            i = r2.choice([0, 5, 13, 27, 28])
            ops.append(call(0, 'var_write_int32', [v, i]))
            if k % 4 == 0:
                ops.append(call(0, r2.choice(['motors_disable', 'motors_query_enabled', 'query_nickname', 'xy_move']),
                                [3, 4, 5] if ops and False else []))
                if ops[-1]['m'] == 'xy_move':
                    ops[-1]['a'] = [r2.randint(-9, 9), r2.randint(-9, 9), 10]
            if k % 5 == 0:
                ops.append(call(0, 'motors_enable', [r2.randint(0, 5), r2.randint(0, 5)]))
            if k % 7 == 0:
                ops.append({'op': 'env', 'what': 'idle', 'seconds': r2.choice([2, 5, 60, 7200])})
            if k % 11 == 0:
                ops.append(call(0, 'write_nickname', [r2.choice(NICKS)]))
            ops.append(call(0, 'var_read_int32', [i]))
        yield {'prop': PROP, 'world': world, 'ops': mk_ops(ops), 'faults': {}, 'io_cap': 100000}
    elif what == 'int32':
        vals = sorted(set(INT32_EDGES + [(1 << k) for k in range(31)] + [-(1 << k) for k in range(32)] +
                          [(1 << k) - 1 for k in range(1, 32)] + [-(1 << k) - 1 for k in range(31)]))
        for s in range(0, len(vals), 8):
            world = world_for(rng)
            ops = [{'op': 'new', 'obj': 0}, call(0, 'connect')]
            for v in vals[s:s + 8]:
                ops.append(call(0, 'var_write_int32', [v, x]))
                ops.append(call(0, 'var_read_int32', [x]))
                if x >= 2:
                    ops.append(call(0, 'var_read_int32', [x - 2]))
                if x <= 26:
                    ops.append(call(0, 'var_read_int32', [x + 2]))
            yield {'prop': PROP, 'world': world, 'ops': mk_ops(ops), 'faults': {}}
    else:
        for first, second in (('Bob', 'BOB'), ('Bob', 'bob '), ('abc', 'Abc'), ('Bob', ''), ('Bob', '  '), ('', 'Bob'),
                              ('Bob', 'Robert'), ('Tango 2', 'Quill')):
            world = world_for(rng)
            port = world['boards'][0]['port']
            world['boards'][0]['nick'] = first
            ops = mk_ops([{'op': 'new', 'obj': 0}, call(0, 'connect'), call(0, 'query_nickname'),
                          call(0, 'write_nickname', [second]), call(0, 'query_nickname'),
                          call(0, 'write_nickname', [first]), call(0, 'query_nickname'), call(0, 'disconnect'),
                          {'op': 'env', 'what': 'set', 'port': port, 'state': {'nick': second.strip()}},
                          call(0, 'connect'), call(0, 'query_nickname'), call(0, 'disconnect'),
                          {'op': 'env', 'what': 'replug', 'port': port},
                          {'op': 'env', 'what': 'set', 'port': port, 'state': {'nick': 'Zed'}},
                          call(0, 'connect'), call(0, 'query_nickname')])
            yield {'prop': PROP, 'world': world, 'ops': ops, 'faults': {}}
        # the same request issued again after the board forgot (power cycle) or somebody else changed it
        repeats = [[call(0, 'var_write_int32', [17, 0]), call(0, 'var_write_int32', [0x11223344, 3])],
                   [call(0, 'var_write_int32', [0x11223344, 3]), call(0, 'var_read_int32', [3])],
                   [call(0, 'var_write', [200, 7]), call(0, 'var_read', [7])],
                   [call(0, 'motors_enable', [2, 2]), call(0, 'motors_query_enabled')],
                   [call(0, 'motors_enable', [0, 3]), call(0, 'motors_query_enabled')],
                   [call(0, 'motors_enable', [4, 0]), call(0, 'motors_query_enabled')],
                   [call(0, 'write_nickname', ['Repeat']), call(0, 'query_nickname')]]
        for seq in repeats:
            for how in ('power', 'other_writer'):
                world = world_for(rng)
                port = world['boards'][0]['port']
                ops = [{'op': 'new', 'obj': 0}, call(0, 'connect')] + [dict(o) for o in seq]
                if how == 'power':
                    ops += [call(0, 'disconnect'), {'op': 'env', 'what': 'replug', 'port': port}, call(0, 'connect')]
                else:
                    ops += [{'op': 'env', 'what': 'set', 'port': port,
                             'state': {'ram': list(range(60, 92)), 'en1': 0, 'en2': 0, 'mode': 5, 'nick': 'Else'}}]
                ops += [dict(o) for o in seq] + [dict(o) for o in seq]
                yield {'prop': PROP, 'world': world, 'ops': mk_ops(ops), 'faults': {}}
        for nick in NICKS:
            world = world_for(rng)
            ops = mk_ops([{'op': 'new', 'obj': 0}, call(0, 'connect'), call(0, 'write_nickname', [nick]),
                          call(0, 'query_nickname'), call(0, 'disconnect'),
                          {'op': 'env', 'what': 'replug', 'port': world['boards'][0]['port']},
                          call(0, 'connect'), call(0, 'query_nickname')])
            yield {'prop': PROP, 'world': world, 'ops': ops, 'faults': {}}
