"""
C06 - motion/configuration helpers emit exactly the documented EBB command text.

The observable is the simulated wire.  Expected text comes from a command table
transcribed by hand from the helpers' docstrings and the property statement
(DESIGN.md section 7, C06) - never from the format strings under test.  Every
request is issued through the legacy helper and the EBB3 method in the same run,
against two boards, and the two wires are compared as well.
"""

from common import (V, ebb_spec, PORT_NAMES, mk_ops, call, lcall, discover, pick_int, failish, EXC_ALL)

PROP = 'C06'
LEVEL = 'exploration'
N_QUICK = 48000
N_THOROUGH = 2000000
WALL_QUICK = 100
WALL_THOROUGH = 1500

REACH_FOCUS = {'ebb_motion': None, 'ebb3_motion': None, 'ebb3_serial': ['command', 'query', 'var_write', 'var_read', 'query_statusbyte']}

RULE = ("Scenario = one legacy-syntax board with an open port + one firmware-3 board with a connected EBBMotionWrap "
        "object + 3..30 helper requests, each issued through the legacy helper and/or the EBB3 method with the same "
        "arguments (integers over firmware ranges, weight on 0, negatives, chunk boundaries 749..751/1499..1501, "
        "resolutions -2..8; optional arguments absent / None / present-as-0 / present; positional and keyword), under "
        "reply latencies from prompt to the edge of the retry budget, from varied prior motor states; plus "
        "no-port / unconnected variants and (separately) single-fault variants. Sweep part: every helper x a grid of "
        "boundary arguments. Non-trivial = the call produced at least one byte or exercised a suppression rule. "
        "Distinct = (helper, class of each argument in {absent, None, neg, 0, 1, mid, edge, big}).")

ASSUMPTIONS = [
    "command table transcribed by hand from the helpers' docstrings and the property statement (no network: the "
    "online EBB reference could not be consulted)",
    "for EBB3 motors_enable the commands between an optional leading CU,50,0 and the final EM,c1,c2 may be "
    "nothing, QE, EM,c2,c2 or QE+EM,c2,c2 when only motor 2 is enabled; whether they are needed is a board-state "
    "question decided by C16",
    "legacy helpers gated by firmware version may send a V probe first; only the gated command text is judged here",
    "integer arguments only (the statement quantifies over integers)",
]


def clamp(r):
    return max(0, min(5, int(r)))


def bind(names, defaults, a, k):
    """Bind positional + keyword arguments like Python would.  Returns dict or None (TypeError)."""
    if len(a) > len(names):
        return None
    out = dict(defaults)
    for n, v in zip(names, a):
        out[n] = v
    for n, v in k.items():
        if n not in names:
            return None
        out[n] = v
    for n in names:
        if n not in out:
            return None
    return out


# name -> (parameter names after port/self, defaults)
LEGACY_SIG = {
    'doABMove': (['delta_a', 'delta_b', 'duration', 'verbose'], {'verbose': True}),
    'doTimedPause': (['n_pause', 'verbose'], {'verbose': True}),
    'doLowLevelMove': (['rate1', 'steps1', 'accel1', 'rate2', 'steps2', 'accel2', 'clear', 'verbose'],
                       {'clear': None, 'verbose': True}),
    'doXYMove': (['delta_x', 'delta_y', 'duration', 'verbose'], {'verbose': True}),
    'doAbsMove': (['rate', 'position1', 'position2', 'verbose'], {'position1': None, 'position2': None, 'verbose': True}),
    'sendDisableMotors': (['verbose'], {'verbose': True}),
    'sendEnableMotors': (['res', 'verbose'], {'verbose': True}),
    'sendPenDown': (['pen_delay', 'pin', 'verbose'], {'pin': None, 'verbose': True}),
    'sendPenUp': (['pen_delay', 'pin', 'verbose'], {'pin': None, 'verbose': True}),
    'PBOutConfig': (['pin', 'state', 'verbose'], {'verbose': True}),
    'PBOutValue': (['pin', 'state', 'verbose'], {'verbose': True}),
    'TogglePen': (['verbose'], {'verbose': True}),
    'setPenDownPos': (['servo_max', 'verbose'], {'verbose': True}),
    'setPenDownRate': (['pen_down_rate', 'verbose'], {'verbose': True}),
    'setPenUpPos': (['servo_min', 'verbose'], {'verbose': True}),
    'setPenUpRate': (['pen_up_rate', 'verbose'], {'verbose': True}),
    'setEBBLV': (['ebb_lv', 'verbose'], {'verbose': True}),
    'queryEBBLV': (['verbose'], {'verbose': True}),
    'servo_timeout': (['timeout_ms', 'state', 'verbose'], {'state': None, 'verbose': True}),
    'QueryPenUp': (['verbose'], {'verbose': True}),
    'QueryPRGButton': (['verbose'], {'verbose': True}),
    'query_steps': (['verbose'], {'verbose': True}),
    'query_enable_motors': (['verbose'], {'verbose': True}),
    'queryVoltage': (['verbose'], {'verbose': True}),
}
E3_SIG = {
    'timed_pause': (['pause_time'], {}),
    'xy_move': (['delta_x', 'delta_y', 'duration'], {}),
    'abs_move': (['rate', 'position1', 'position2'], {'position1': None, 'position2': None}),
    'motors_disable': ([], {}),
    'motors_enable': (['resolution_1', 'resolution_2'], {}),
    'motors_query_enabled': ([], {}),
    'query_steps': ([], {}),
    'clear_steps': ([], {}),
    'clear_accumulators': ([], {}),
    'pen_lower': (['pen_delay', 'pin'], {'pin': None}),
    'pen_raise': (['pen_delay', 'pin'], {'pin': None}),
    'dio_b_config': (['pin', 'state', 'direction'], {}),
    'dio_b_set': (['pin', 'state'], {}),
    'dio_b_read': (['pin'], {}),
    'pen_pos_down': (['servo_max'], {}),
    'pen_pos_up': (['servo_min'], {}),
    'pen_rate_down': (['pen_down_rate'], {}),
    'pen_rate_up': (['pen_up_rate'], {}),
    'servo_timeout': (['timeout_ms', 'state'], {'state': None}),
    'query_voltage': (['threshold'], {'threshold': None}),
    'query_current': ([], {}),
    'var_write': (['value', 'index'], {}),
    'var_read': (['index'], {}),
    'query_statusbyte': ([], {}),
}


def expect(layer, fn, b, fw=None):
    """Documented wire of one helper call.  Returns (mode, data):
       ('exact', [requests]) | ('pause', n) | ('menable', (c1, c2)) | None (helper not in the table)."""
    g = b.get
    if fn in ('doABMove',):
        return 'exact', ['XM,%s,%s,%s' % (g('duration'), g('delta_a'), g('delta_b'))]
    if fn in ('doXYMove', 'xy_move'):
        return 'exact', ['SM,%s,%s,%s' % (g('duration'), g('delta_y'), g('delta_x'))]
    if fn == 'doTimedPause':
        return 'pause', g('n_pause')
    if fn == 'timed_pause':
        return 'pause', g('pause_time')
    if fn == 'doLowLevelMove':
        r1, s1, a1, r2, s2, a2 = (g('rate1'), g('steps1'), g('accel1'), g('rate2'), g('steps2'), g('accel2'))
        still1 = (r1 == 0 and a1 == 0) or s1 == 0
        still2 = (r2 == 0 and a2 == 0) or s2 == 0
        if still1 and still2:
            return 'exact', []
        t = 'LM,%s,%s,%s,%s,%s,%s' % (r1, s1, a1, r2, s2, a2)
        if g('clear') is not None:
            t += ',%s' % g('clear')
        return 'exact', [t]
    if fn in ('doAbsMove', 'abs_move'):
        if g('position1') is not None and g('position2') is not None:
            return 'exact', ['HM,%s,%s,%s' % (g('rate'), g('position1'), g('position2'))]
        return 'exact', ['HM,%s' % g('rate')]
    if fn in ('sendDisableMotors', 'motors_disable'):
        return 'exact', ['EM,0,0']
    if fn == 'sendEnableMotors':
        c = clamp(g('res'))
        return 'exact', ['EM,%d,%d' % (c, c)]
    if fn == 'motors_enable':
        return 'menable', (clamp(g('resolution_1')), clamp(g('resolution_2')))
    if fn in ('sendPenDown', 'pen_lower', 'sendPenUp', 'pen_raise'):
        v = 0 if fn in ('sendPenDown', 'pen_lower') else 1
        t = 'SP,%d,%s' % (v, g('pen_delay'))
        if g('pin') is not None:
            t += ',%s' % g('pin')
        return 'exact', [t]
    if fn == 'PBOutConfig':
        return 'exact', ['PO,B,%s,%s' % (g('pin'), g('state')), 'PD,B,%s,0' % g('pin')]
    if fn == 'dio_b_config':
        return 'exact', ['PO,B,%s,%s' % (g('pin'), g('state')), 'PD,B,%s,%s' % (g('pin'), g('direction'))]
    if fn in ('PBOutValue', 'dio_b_set'):
        return 'exact', ['PO,B,%s,%s' % (g('pin'), g('state'))]
    if fn == 'dio_b_read':
        return 'exact', ['PI,B,%s' % g('pin')]
    if fn == 'TogglePen':
        return 'exact', ['TP']
    if fn in ('setPenDownPos', 'pen_pos_down'):
        return 'exact', ['SC,5,%s' % g('servo_max')]
    if fn in ('setPenUpPos', 'pen_pos_up'):
        return 'exact', ['SC,4,%s' % g('servo_min')]
    if fn in ('setPenDownRate', 'pen_rate_down'):
        return 'exact', ['SC,12,%s' % g('pen_down_rate')]
    if fn in ('setPenUpRate', 'pen_rate_up'):
        return 'exact', ['SC,11,%s' % g('pen_up_rate')]
    if fn == 'setEBBLV':
        return 'exact', ['SL,%s' % g('ebb_lv')]
    if fn == 'queryEBBLV':
        return 'exact', ['QL']
    if fn == 'var_write':
        return 'exact', ['SL,%s,%s' % (g('value'), g('index'))]
    if fn == 'var_read':
        return 'exact', ['QL,%s' % g('index')]
    if fn == 'servo_timeout':
        t = 'SR,%s' % g('timeout_ms')
        if g('state') is not None:
            t += ',%s' % g('state')
        if layer == 'legacy':
            if fw is not None and tuple(fw) < (2, 6, 0):
                return 'gated', []
            return 'gated', [t]
        return 'exact', [t]
    if fn == 'queryVoltage':
        if fw is not None and tuple(fw) < (2, 2, 3):
            return 'gated', []
        return 'gated', ['QC']
    if fn in ('query_voltage', 'query_current'):
        return 'exact', ['QC']
    if fn == 'clear_steps':
        return 'exact', ['CS']
    if fn == 'clear_accumulators':
        return 'exact', ['T3,1,0,0,0,0,0,0,3']
    if fn == 'query_steps':
        return 'exact', ['QS']
    if fn == 'motors_query_enabled':
        return 'exact', ['QE']
    if fn == 'QueryPenUp':
        return 'exact', ['QP']
    if fn == 'QueryPRGButton':
        return 'exact', ['QB']
    if fn == 'query_enable_motors':
        return 'exact', ['PI,E,0', 'PI,C,1', 'PI,E,2', 'PI,E,1', 'PI,A,6']
    if fn == 'query_statusbyte':
        return 'exact', ['QG']
    return None


def write_faulted(rec):
    """A write of this call raised: a request handed over in pieces may have got out only in part."""
    return any(f[1] == 'write' for f in rec['faults_fired'])


def split_wire(w):
    parts = w.split('\r')
    tail = parts.pop()
    return parts, tail


def judge(mode, data, reqs, faulty, latching):
    """Compare transmitted requests with the documented ones.  Returns error text or None."""
    if mode == 'gated':
        if reqs and reqs[0].strip().upper() == 'V':
            reqs = reqs[1:]
        mode = 'exact'
    if mode == 'exact':
        if reqs == data:
            return None
        if faulty:
            if latching and reqs == data[:len(reqs)]:
                return None
            if not latching:
                it = iter(data)
                if all(any(r == d for d in it) for r in reqs):
                    return None
        return 'sent %r, documented %r' % (reqs, data)
    if mode == 'pause':
        n = data
        durs = []
        for r in reqs:
            p = r.split(',')
            if len(p) != 4 or p[0] != 'SM' or p[2] != '0' or p[3] != '0':
                return 'pause emitted %r, which is not a zero-move SM command' % r
            try:
                d = int(p[1])
            except ValueError:
                return 'pause emitted %r' % r
            if str(d) != p[1] or not 1 <= d <= 750:
                return 'pause chunk duration %r outside 1..750' % p[1]
            durs.append(d)
        if n <= 0:
            return None if not reqs else 'pause(%r) must send nothing, sent %r' % (n, reqs)
        if sum(durs) == n:
            return None
        if faulty and sum(durs) <= n:
            return None
        return 'pause(%r) chunks %r sum to %d' % (n, durs, sum(durs))
    if mode == 'menable':
        c1, c2 = data
        return menable_judge(c1, c2, list(reqs), faulty and latching)
    return 'unknown mode'


def menable_judge(c1, c2, reqs, prefix_ok):
    """EBB3 motors_enable: the last command is EM,c1,c2.  Before it, and in no prescribed order among
    themselves (the documentation fixes none): CU,50,0 exactly when one motor only is enabled; and, when only
    motor 2 is enabled, optionally the enable query QE and the resolution pre-set EM,c2,c2 (the pre-set not
    before the query, if both appear).  Nothing else, nothing twice."""
    one_only = (c1 == 0) != (c2 == 0)
    final = 'EM,%d,%d' % (c1, c2)
    before = set()
    if one_only:
        before.add('CU,50,0')
    pre = None
    if c1 == 0 and c2 != 0:
        pre = 'EM,%d,%d' % (c2, c2)
        before |= {'QE', pre}
    doc = 'documented: %s then %s' % (sorted(before) or 'nothing', final)
    body = reqs[:-1] if (reqs and reqs[-1] == final) else reqs
    complete = bool(reqs) and reqs[-1] == final
    if len(set(body)) != len(body) or any(r not in before for r in body):
        return 'sent %r; %s' % (reqs, doc)
    if pre in body and 'QE' in body and body.index(pre) < body.index('QE'):
        return 'sent %r: resolution pre-set before the query that decides whether it is needed' % (reqs,)
    if complete:
        if one_only and 'CU,50,0' not in body:
            return 'sent %r without CU,50,0 although only one motor is enabled; %s' % (reqs, doc)
        return None
    if prefix_ok:
        return None
    return 'sent %r; %s' % (reqs, doc)


def check(scn, hist):
    out = []
    if hist.hang:
        last = hist.ops[-1] if hist.ops else None
        name = '?'
        if last:
            name = last['op'].get('m') or last['op'].get('f', '?.?').split('.')[-1]
        out.append(V(PROP, 'hang', name, last['id'] if last else None, 'run did not terminate: ' + hist.hang))
        return out
    specs = {b['port']: b for b in scn['world']['boards']}
    slot_port = {}
    pairs = {}
    for i, rec in enumerate(hist.ops):
        op = rec['op']
        if op['op'] == 'lopen':
            slot_port[op['slot']] = op['port']
            continue
        if op['op'] == 'env':
            if op['what'] == 'replace_device':
                specs[op['port']] = dict(op['spec'], port=op['port'])
            continue
        if op.get('nojudge'):
            continue
        oid = rec['id']
        faulty = bool(rec['faults_fired']) or any(q.get('plan') and set(q['plan']) - {'at', 'delay'}
                                                  for q in rec['requests'])
        budget = 100 if op['op'] == 'lcall' else (0 if op.get('m') == 'query_statusbyte' else 25)
        late = any(q.get('plan') and any(d > budget for d in q['plan'].get('delay', []))
                   for q in rec['requests'])
        # lines of an earlier, faulted request that are still on their way when this call starts make this
        # call's replies unreliable too (a version probe may read one of them): judged like a faulty call
        stale = i > 0 and any(hist.ops[i - 1]['pending'].values())
        faulty = faulty or late or stale
        if op['op'] == 'lcall' and op['f'].startswith('ebb_motion.'):
            fn = op['f'].split('.')[1]
            if fn not in LEGACY_SIG:
                continue
            a = op.get('a', [])
            port = slot_port.get(a[0]['slot']) if a and isinstance(a[0], dict) else None
            names, defaults = LEGACY_SIG[fn]
            b = bind(names, defaults, a[1:], op.get('k', {}))
            if b is None:
                continue
            wire_all = {p: w for p, w in rec['wire'].items() if w}
            if port is None:
                if wire_all or rec['io']:
                    out.append(V(PROP, 'no_port', fn, oid, 'I/O without a port: %r %r' % (wire_all, rec['io'])))
                if rec['exc'] is not None:
                    out.append(V(PROP, 'no_port', fn, oid, 'raised %s: %s' % (rec['exc'], rec['exc_msg'])))
                continue
            if rec['exc'] is not None and not faulty:
                out.append(V(PROP, 'raised', fn, oid, '%s: %s' % (rec['exc'], rec['exc_msg'])))
                continue
            ex = expect('legacy', fn, b, specs[port]['fw'])
            if ex is None:
                continue
            other = {p: w for p, w in wire_all.items() if p != port}
            if other:
                out.append(V(PROP, 'wire', fn, oid, 'bytes on another port: %r' % other))
            reqs, tail = split_wire(rec['wire'].get(port, ''))
            if tail and not write_faulted(rec):
                out.append(V(PROP, 'wire', fn, oid, 'unterminated text %r' % tail))
                continue
            msg = judge(ex[0], ex[1], reqs, faulty, False)
            if msg:
                out.append(V(PROP, 'wire', fn, oid, msg))
            elif not faulty:
                msg = board_effect(fn, b, hist, i, port)
                if msg:
                    out.append(V(PROP, 'board_effect', fn, oid, msg))
            if 'pair' in op and not faulty and not (ex[0] == 'gated' and not ex[1]):
                pairs.setdefault(op['pair'], {})['legacy'] = (fn, reqs, oid)
        elif op['op'] == 'call' and op['m'] in E3_SIG:
            fn = op['m']
            bfr = rec['before']
            names, defaults = E3_SIG[fn]
            b = bind(names, defaults, op.get('a', []), op.get('k', {}))
            if b is None:
                continue
            wire_all = {p: w for p, w in rec['wire'].items() if w}
            if bfr['port'] is None:
                if wire_all:
                    out.append(V(PROP, 'no_port', fn, oid, 'bytes written by an unconnected object: %r' % wire_all))
                if rec['exc'] is not None:
                    out.append(V(PROP, 'no_port', fn, oid, 'raised %s: %s' % (rec['exc'], rec['exc_msg'])))
                continue
            if bfr['err'] is not None:
                continue                       # latched: C04's domain
            if rec['exc'] is not None and not faulty:
                out.append(V(PROP, 'raised', fn, oid, '%s: %s' % (rec['exc'], rec['exc_msg'])))
                continue
            port = bfr['port']
            ex = expect('ebb3', fn, b)
            if ex is None:
                continue
            other = {p: w for p, w in wire_all.items() if p != port}
            if other:
                out.append(V(PROP, 'wire', fn, oid, 'bytes on another port: %r' % other))
            reqs, tail = split_wire(rec['wire'].get(port, ''))
            if tail and not write_faulted(rec):
                out.append(V(PROP, 'wire', fn, oid, 'unterminated text %r' % tail))
                continue
            msg = judge(ex[0], ex[1], reqs, faulty, True)
            if msg:
                out.append(V(PROP, 'wire', fn, oid, msg))
            elif not faulty:
                if rec['after']['err'] is not None:
                    out.append(V(PROP, 'rejected', fn, oid, 'the board rejected the documented text: %r'
                                 % rec['after']['err']))
                else:
                    msg = board_effect(fn, b, hist, i, port)
                    if msg:
                        out.append(V(PROP, 'board_effect', fn, oid, msg))
            if 'pair' in op and not faulty:
                pairs.setdefault(op['pair'], {})['ebb3'] = (fn, reqs, oid)
    for pid, d in pairs.items():
        if 'legacy' in d and 'ebb3' in d:
            lf, lr, lo = d['legacy']
            ef, er, eo = d['ebb3']
            if lr and lr[0].strip().upper() == 'V' and lf in ('servo_timeout', 'queryVoltage'):
                lr = lr[1:]
            if lr != er:
                out.append(V(PROP, 'wire_pair', ef, eo, 'legacy %s sent %r, EBB3 %s sent %r' % (lf, lr, ef, er)))
    return out


def dev_state(hist, i, port):
    for d, meta in zip(hist.ops[i]['dev'], hist.devices):
        if meta['port'] == port:
            return d
    return None


def board_effect(fn, b, hist, i, port):
    """Cross-check on the device model: what the board did with the text."""
    if i == 0:
        return None
    before = dev_state(hist, i - 1, port)
    after = dev_state(hist, i, port)
    if before is None or after is None:
        return None
    g = b.get
    if fn in ('doXYMove', 'xy_move'):
        d1 = after['steps'][0] - before['steps'][0]
        d2 = after['steps'][1] - before['steps'][1]
        if (d1, d2) != (g('delta_y'), g('delta_x')):
            return 'axis 1 moved %d (delta_y=%r), axis 2 moved %d (delta_x=%r)' % (d1, g('delta_y'), d2, g('delta_x'))
    elif fn in ('doTimedPause', 'timed_pause'):
        n = g('n_pause') if fn == 'doTimedPause' else g('pause_time')
        got = after['paused_ms'] - before['paused_ms']
        if got != max(n, 0):
            return 'board paused %d ms for pause(%r)' % (got, n)
    elif fn in ('doAbsMove', 'abs_move'):
        last = after['hm'][-1] if after['hm'] else None
        both = g('position1') is not None and g('position2') is not None
        want = [g('rate'), g('position1'), g('position2')] if both else [g('rate'), None, None]
        if last != want:
            return 'board executed HM %r, request was %r' % (last, want)
    elif fn in ('sendPenDown', 'pen_lower', 'sendPenUp', 'pen_raise'):
        last = after['sp'][-1] if after['sp'] else None
        want = [0 if fn in ('sendPenDown', 'pen_lower') else 1, g('pen_delay')]
        if g('pin') is not None:
            want.append(g('pin'))
        if last != want:
            return 'board executed SP %r, request was %r' % (last, want)
    elif fn in ('motors_enable', 'sendEnableMotors', 'sendDisableMotors', 'motors_disable'):
        # what the board ended up with: the text "documented for" enabling only motor 2 depends on the
        # resolution the board already uses, which only the board knows
        if fn == 'motors_enable':
            c1, c2 = clamp(g('resolution_1')), clamp(g('resolution_2'))
        elif fn == 'sendEnableMotors':
            c1 = c2 = clamp(g('res'))
        else:
            c1 = c2 = 0
        if (after['en1'], after['en2']) != (1 if c1 else 0, 1 if c2 else 0):
            return 'board has en1=%d en2=%d after a request for resolutions (%d,%d)' % (after['en1'], after['en2'], c1, c2)
        want_mode = c1 or c2
        if want_mode and after['mode'] != want_mode:
            return ('board microstep mode %d after a request for resolutions (%d,%d) from prior (en1=%d,en2=%d,mode=%d)'
                    % (after['mode'], c1, c2, before['en1'], before['en2'], before['mode']))
    elif fn == 'doABMove':
        d1 = after['steps'][0] - before['steps'][0]
        d2 = after['steps'][1] - before['steps'][1]
        if (d1, d2) != (g('delta_a') + g('delta_b'), g('delta_a') - g('delta_b')):
            return 'axes moved %d,%d for AB move (%r,%r)' % (d1, d2, g('delta_a'), g('delta_b'))
    return None


def arg_class(v):
    if v is None:
        return 'None'
    if isinstance(v, bool):
        return 'bool'
    if isinstance(v, dict):
        return 'float'
    if v < 0:
        return 'neg'
    if v in (0, 1):
        return str(v)
    if v in (749, 750, 751, 1499, 1500, 1501, 5, 6, 65535, 2147483647):
        return 'edge'
    if v > 100000:
        return 'big'
    return 'mid'


def classify(scn, hist):
    keys = []
    for rec in hist.ops:
        op = rec['op']
        if op['op'] == 'lcall' and op['f'].startswith('ebb_motion.'):
            fn = op['f'].split('.')[1]
            a = op.get('a', [])[1:]
            port = op['a'][0] if op.get('a') else None
            tag = 'L:' + fn + ('@noport' if port is None else '')
        elif op['op'] == 'call' and op['m'] in E3_SIG:
            fn = op['m']
            a = op.get('a', [])
            tag = 'E:' + fn + ('@unconnected' if rec['before']['port'] is None else '')
        else:
            continue
        cls = [arg_class(x) for x in a] + ['%s=%s' % (k, arg_class(v)) for k, v in sorted(op.get('k', {}).items())]
        lat = 'slow' if any(x == '' for x in rec['reads']) else 'prompt'
        fl = 'F' if rec['faults_fired'] else ''
        keys.append('%s(%s)|%s%s' % (tag, ','.join(cls), lat, fl))
    return keys


def observe(scn, hist, st):
    for rec in hist.ops:
        op = rec['op']
        if op['op'] == 'lcall':
            st['sets']['legacy_helpers'].add(op['f'])
        elif op['op'] == 'call':
            st['sets']['ebb3_helpers'].add(op['m'])
        if any(w for w in rec['wire'].values()):
            st['extra']['calls_with_bytes'] += 1
        elif op['op'] in ('lcall', 'call'):
            st['extra']['calls_without_bytes'] += 1


# ---------------------------------------------------------------------------
# request generators: abstract request -> (legacy call or None, ebb3 call or None)

PAUSE_EDGES = [-1, 0, 1, 2, 749, 750, 751, 1499, 1500, 1501, 2249, 2250, 2251, 100000]
PAUSE_HUGE = [750000, 750001, 800000, 1000000, 1234567]      # a thousand chunks and more


def opt(rng, lo, hi, edges):
    """absent / None / value (0-weighted)."""
    r = rng.random()
    if r < 0.25:
        return 'absent'
    if r < 0.35:
        return None
    return pick_int(rng, lo, hi, edges)


def floaty(rng):
    """A legacy call whose numbers are floats or bools that compare equal to integers other calls use.
    Such a call is outside the property's quantifier (integers) and is never judged; it is history: a
    memo keyed on argument equality would serve its text to a later integer call."""
    def fl(v):
        return {'float': repr(float(v))}
    r = rng.random()
    if r < 0.4:
        n = rng.choice([750, 1500, 2000, 1, 751])
        return [('legacy', 'doTimedPause', [fl(n)], {'_nojudge': True})]
    if r < 0.7:
        dx, dy, t = rng.choice([(40, 0, 100), (1, 1, 1), (0, 0, 750), (-7, 2, 30000)])
        return [('legacy', 'doXYMove', [fl(dx), fl(dy), fl(t)], {'_nojudge': True})]
    if r < 0.85:
        return [('legacy', 'doXYMove', [True, False, True], {'_nojudge': True})]
    a, b, t = rng.choice([(3, 4, 50), (1, 0, 1)])
    return [('legacy', 'doABMove', [fl(a), fl(b), fl(t)], {'_nojudge': True})]


def gen_request(rng):
    """Returns list of (layer, fn, args, kwargs)."""
    if rng.random() < 0.01:
        return floaty(rng)
    kind = rng.choice(['xy', 'xy', 'ab', 'pause', 'pause', 'lm', 'lm', 'abs', 'abs', 'abs', 'off', 'on', 'menable', 'menable',
                       'pendown', 'penup', 'pendown', 'penup', 'pincfg', 'pincfg3', 'pinset', 'pinread', 'toggle',
                       'sc5', 'sc4', 'sc12', 'sc11', 'srv', 'srv', 'lv', 'lvq', 'var', 'varq', 'cs', 'ca', 'qs',
                       'qe', 'qp', 'qb', 'qem', 'volt', 'cur', 'qg'])
    vb = {}
    if rng.random() < 0.2:
        vb = {'verbose': rng.choice([True, False])}
    if kind == 'xy':
        big = [999999, 1000000, -1000000, 1234567, 10000000, 16777215, -16777215]     # the firmware takes 24-bit values
        dx = pick_int(rng, -100000, 100000, [0, 0, 1, -1])
        dy = pick_int(rng, -100000, 100000, [0, 0, 1, -1])
        t = pick_int(rng, 1, 100000, [1, 2, 750])
        if rng.random() < 0.12:
            dx = rng.choice(big)
        if rng.random() < 0.12:
            dy = rng.choice(big)
        if rng.random() < 0.08:
            t = rng.choice([1000000, 16777215, 2500000])
        if rng.random() < 0.15:
            return [('legacy', 'doXYMove', [], dict(delta_x=dx, delta_y=dy, duration=t, **vb)),
                    ('ebb3', 'xy_move', [], dict(delta_x=dx, delta_y=dy, duration=t))]
        return [('legacy', 'doXYMove', [dx, dy, t], vb), ('ebb3', 'xy_move', [dx, dy, t], {})]
    if kind == 'ab':
        return [('legacy', 'doABMove', [pick_int(rng, -100000, 100000, [0, 1, -1]) if rng.random() < 0.85 else
                                        rng.choice([1000000, -1000000, 16777215]),
                                        pick_int(rng, -100000, 100000, [0, 1, -1]) if rng.random() < 0.85 else
                                        rng.choice([1000000, -2000000, 8388608]),
                                        pick_int(rng, 1, 100000, [1, 750]) if rng.random() < 0.9 else 1000000], vb)]
    if kind == 'pause':
        n = rng.choice(PAUSE_EDGES) if rng.random() < 0.6 else rng.randint(-3, 6000)
        if rng.random() < 0.006:
            n = rng.choice(PAUSE_HUGE)
        return [('legacy', 'doTimedPause', [n], vb), ('ebb3', 'timed_pause', [n], {})]
    if kind == 'lm':
        z = lambda: rng.choice([0, 0, 0, 1, -1, rng.randint(-2 ** 31 + 1, 2 ** 31 - 1), rng.randint(-1000, 1000)])
        args = [z(), z(), z(), z(), z(), z()]
        if rng.random() < 0.08:
            # all six at (or near) the 31-bit limits: the longest command lines there are (60 to 70 bytes)
            big = lambda: rng.choice([2147483647, -2147483647, rng.randint(10 ** 8, 2 ** 31 - 1),
                                      -rng.randint(10 ** 8, 2 ** 31 - 1), rng.randint(10 ** 6, 10 ** 9), -123, 7])
            args = [big(), big(), big(), big(), big(), big()]
        c = rng.choice(['absent', 'absent', None, 0, 0, 1, 2, 3])
        k = dict(vb)
        if c != 'absent':
            if rng.random() < 0.5:
                args.append(c)
            else:
                k['clear'] = c
        return [('legacy', 'doLowLevelMove', args, k)]
    if kind == 'abs':
        rate = pick_int(rng, 2, 25000, [2, 1000])
        p1 = opt(rng, -50000, 50000, [0, 0, 0, 1, -1])
        p2 = opt(rng, -50000, 50000, [0, 0, 0, 1, -1])
        if p1 == 'absent':
            a, k = [rate], ({} if p2 == 'absent' else {'position2': p2})
        elif p2 == 'absent':
            a, k = [rate, p1], {}
        elif rng.random() < 0.3:
            a, k = [rate], {'position1': p1, 'position2': p2}
        else:
            a, k = [rate, p1, p2], {}
        kl = dict(k)
        kl.update(vb)
        return [('legacy', 'doAbsMove', a, kl), ('ebb3', 'abs_move', a, k)]
    if kind == 'off':
        return [('legacy', 'sendDisableMotors', [], vb), ('ebb3', 'motors_disable', [], {})]
    if kind == 'on':
        res = rng.randint(-2, 8)
        return [('legacy', 'sendEnableMotors', [res], vb), ('ebb3', 'motors_enable', [res, res], {})]
    if kind == 'menable':
        return [('ebb3', 'motors_enable', [rng.randint(-2, 8), rng.randint(-2, 8)], {})]
    if kind in ('pendown', 'penup'):
        delay = pick_int(rng, 0, 65535, [0, 0, 1, 100])
        pin = opt(rng, 0, 7, [0, 0, 0, 1, 2])
        lf, ef = ('sendPenDown', 'pen_lower') if kind == 'pendown' else ('sendPenUp', 'pen_raise')
        if pin == 'absent':
            a, k = [delay], {}
        elif rng.random() < 0.3:
            a, k = [delay], {'pin': pin}
        else:
            a, k = [delay, pin], {}
        kl = dict(k)
        kl.update(vb)
        return [('legacy', lf, a, kl), ('ebb3', ef, a, k)]
    if kind == 'pincfg':
        pin, state = rng.randint(0, 7), rng.randint(0, 1)
        return [('legacy', 'PBOutConfig', [pin, state], vb), ('ebb3', 'dio_b_config', [pin, state, 0], {})]
    if kind == 'pincfg3':
        return [('ebb3', 'dio_b_config', [rng.randint(0, 7), rng.randint(0, 1), rng.randint(0, 1)], {})]
    if kind == 'pinset':
        pin, state = rng.randint(0, 7), rng.randint(0, 1)
        return [('legacy', 'PBOutValue', [pin, state], vb), ('ebb3', 'dio_b_set', [pin, state], {})]
    if kind == 'pinread':
        return [('ebb3', 'dio_b_read', [rng.randint(0, 7)], {})]
    if kind == 'toggle':
        return [('legacy', 'TogglePen', [], vb)]
    if kind in ('sc5', 'sc4', 'sc12', 'sc11'):
        v = pick_int(rng, 0, 65535, [0, 0, 1, 65535])
        lf, ef = {'sc5': ('setPenDownPos', 'pen_pos_down'), 'sc4': ('setPenUpPos', 'pen_pos_up'),
                  'sc12': ('setPenDownRate', 'pen_rate_down'), 'sc11': ('setPenUpRate', 'pen_rate_up')}[kind]
        return [('legacy', lf, [v], vb), ('ebb3', ef, [v], {})]
    if kind == 'srv':
        ms = pick_int(rng, 0, 4000000, [0, 0, 1, 60000])
        stt = opt(rng, 0, 1, [0, 0, 1])
        if stt == 'absent':
            a, k = [ms], {}
        elif rng.random() < 0.3:
            a, k = [ms], {'state': stt}
        else:
            a, k = [ms, stt], {}
        kl = dict(k)
        kl.update(vb)
        return [('legacy', 'servo_timeout', a, kl), ('ebb3', 'servo_timeout', a, k)]
    if kind == 'lv':
        return [('legacy', 'setEBBLV', [pick_int(rng, 0, 255, [0, 0, 1, 255])], vb)]
    if kind == 'lvq':
        return [('legacy', 'queryEBBLV', [], vb)]
    if kind == 'var':
        return [('ebb3', 'var_write', [pick_int(rng, 0, 255, [0, 0, 1, 255]), pick_int(rng, 0, 31, [0, 0, 31])], {})]
    if kind == 'varq':
        return [('ebb3', 'var_read', [pick_int(rng, 0, 31, [0, 0, 31])], {})]
    if kind == 'cs':
        return [('ebb3', 'clear_steps', [], {})]
    if kind == 'ca':
        return [('ebb3', 'clear_accumulators', [], {})]
    if kind == 'qs':
        return [('legacy', 'query_steps', [], vb), ('ebb3', 'query_steps', [], {})]
    if kind == 'qe':
        return [('ebb3', 'motors_query_enabled', [], {})]
    if kind == 'qp':
        return [('legacy', 'QueryPenUp', [], vb)]
    if kind == 'qb':
        return [('legacy', 'QueryPRGButton', [], vb)]
    if kind == 'qem':
        return [('legacy', 'query_enable_motors', [], vb)]
    if kind == 'volt':
        return [('legacy', 'queryVoltage', [], vb), ('ebb3', 'query_voltage', [], {})]
    if kind == 'cur':
        return [('ebb3', 'query_current', [], {})]
    if kind == 'qg':
        return [('ebb3', 'query_statusbyte', [], {})]
    raise ValueError(kind)


def build(world, reqs, no_port=False, unconnected=False, swaps=None, pre=None):
    lport = world['boards'][0]['port']
    eport = world['boards'][1]['port']
    ops = [{'op': 'lopen', 'slot': 0, 'port': lport}, {'op': 'new', 'obj': 0}]
    for layer, fn, a, k in (pre or []):
        # helpers called on the object before it is connected: legal, silent no-ops
        if layer == 'ebb3':
            ops.append(call(0, fn, a, k))
    if not unconnected:
        ops.append(call(0, 'connect', [eport]))
    pair = 0
    for gi, group in enumerate(reqs):
        if swaps and gi in swaps:
            # the legacy port is closed, another board takes over its port name, the port is opened again
            ops.append(lcall('ebb_serial.closePort', [{'slot': 0}]))
            ops.append({'op': 'env', 'what': 'replace_device', 'port': lport, 'spec': swaps[gi]})
            ops.append({'op': 'lopen', 'slot': 0, 'port': lport})
        pair += 1
        for layer, fn, a, k in group:
            nojudge = bool(k.get('_nojudge'))
            k = {x: y for x, y in k.items() if x != '_nojudge'}
            if (layer == 'legacy' and list(k) == ['verbose'] and fn in LEGACY_SIG and
                    len(a) == len(LEGACY_SIG[fn][0]) - 1 and len(LEGACY_SIG[fn][1]) == 1 and (pair + len(a)) % 2 == 0):
                a = list(a) + [k['verbose']]          # verbose handed over positionally (no optional before it)
                k = {}
            if layer == 'legacy':
                op = lcall('ebb_motion.' + fn, [None if no_port else {'slot': 0}] + list(a), k)
            else:
                op = call(0, fn, a, k)
            if nojudge:
                op['nojudge'] = True
            if len(group) == 2:
                op['pair'] = pair
            ops.append(op)
    return mk_ops(ops)


def make_world(rng, fw_l=None, prior=None):
    style = rng.choice(['mac', 'linux', 'win'])
    fw_l = fw_l or rng.choice([[2, 5, 5], [2, 6, 0], [2, 8, 1], [2, 2, 2], [2, 10, 0], [3, 0, 2]])
    b0 = ebb_spec(PORT_NAMES[style][0], fw=fw_l, nick='Leg', style=style)
    b1 = ebb_spec(PORT_NAMES[style][1], fw=rng.choice([[3, 0, 2], [3, 1, 0]]), nick='New', style=style)
    if prior is None:
        prior = {'en1': rng.randint(0, 1), 'en2': rng.randint(0, 1), 'mode': rng.randint(1, 5)}
    b0['prior'] = dict(prior)
    b1['prior'] = dict(prior)
    return {'boards': [b0, b1]}


def gen(rng, idx):
    world = make_world(rng)
    n = rng.randint(3, 30)
    reqs = [gen_request(rng) for _ in range(n)]
    r = rng.random()
    mode = 'conforming'
    if r < 0.06:
        ops = build(world, reqs, no_port=True, unconnected=True)
        mode = 'noport'
    elif r < 0.16:
        ops = build(world, reqs)
        mode = 'faulty'
    else:
        swaps = None
        if rng.random() < 0.12:
            swaps = {}
            for _ in range(rng.randint(1, 2)):
                b = dict(world['boards'][0])
                b['fw'] = rng.choice([[2, 5, 5], [2, 6, 0], [2, 8, 1], [2, 2, 2], [2, 10, 0], [2, 5, 9], [2, 1, 0]])
                swaps[rng.randrange(1, n)] = b
        pre = None
        if rng.random() < 0.15:
            pre = [x for g in [gen_request(rng) for _ in range(rng.randint(1, 3))] for x in g]
        ops = build(world, reqs, swaps=swaps, pre=pre)
    scn = {'prop': PROP, 'world': world, 'ops': ops, 'faults': {}, 'cfg': {'mode': mode}}
    if mode == 'noport':
        return scn
    pause_ms = sum(a[0] for g in reqs for (_l, fn, a, _k) in g
                   if fn in ('doTimedPause', 'timed_pause') and a and isinstance(a[0], int) and a[0] > 0)
    huge = pause_ms > 20000
    lat = rng.choice(['prompt', 'prompt', 'slow', 'edge'])
    if huge:
        lat = 'prompt'          # a thousand commands, each waited for a hundred reads, is only more of the same
    # the I/O cap is a safety net against endless loops, not a judgement on how finely a pause may be chopped:
    # room for one command per millisecond, each waited for through the whole retry budget when replies are slow
    scn['io_cap'] = 50000 + 2 * pause_ms * (1 if lat == 'prompt' else 102)
    recs, _ = discover(scn)
    faults = {'io': [], 'reply': []}
    for op in ops:
        if op['op'] not in ('call', 'lcall') or op.get('m') == 'connect':
            continue
        rec = recs[op['id']]
        budget = 25 if op['op'] == 'call' else 100
        for r_i, req in enumerate(rec['requests'], start=1):
            if lat == 'prompt':
                continue
            x = rng.random()
            if x < 0.5:
                continue
            ds = [rng.choice([1, 2, budget - 1, budget]) if lat == 'edge' else rng.randint(0, budget)
                  for _ in req['lines']]
            if any(ds):
                faults['reply'].append({'at': [op['id'], r_i], 'delay': ds})
    if mode == 'faulty':
        cands = [op for op in ops if op['op'] in ('call', 'lcall') and op.get('m') != 'connect'
                 and recs[op['id']]['io']]
        for _ in range(rng.randint(1, 2)):
            if not cands:
                break
            op = rng.choice(cands)
            rec = recs[op['id']]
            if rng.random() < 0.5 and rec['requests']:
                r_i = rng.randint(1, len(rec['requests']))
                faults['reply'] = [f for f in faults['reply'] if f['at'] != [op['id'], r_i]]
                faults['reply'].append({'at': [op['id'], r_i], rng.choice(['drop', 'err']):
                                        'all' if rng.random() < 2 else None})
                if 'err' in faults['reply'][-1]:
                    faults['reply'][-1]['err'] = 'bang'
            else:
                faults['io'].append({'at': [op['id'], rng.randint(1, len(rec['io']))], 'kind': 'raise',
                                     'exc': rng.choice(EXC_ALL)})
    scn['faults'] = faults
    return scn


# ---------------------------------------------------------------------------
# sweep: every helper x a grid of boundary arguments

GRID = {
    'xy': [(dx, dy, t) for dx in (0, 1, -7, 500, 1000000, -16777215) for dy in (0, 2, -9, 2000000)
           for t in (1, 750, 30000, 1000000)],
    'pause': [(n,) for n in PAUSE_EDGES + [3, 700, 3000, 7777, 1000000]],
    'abs': [(r, p1, p2) for r in (1000,) for p1 in ('absent', None, 0, 5, -5) for p2 in ('absent', None, 0, 7, -7)],
    'pen': [(d, p) for d in (0, 1, 400) for p in ('absent', None, 0, 1, 3)],
    'men': [(r1, r2) for r1 in range(-2, 9) for r2 in range(-2, 9)],
    'on': [(r,) for r in range(-3, 10)],
    'lm': [(r1, s1, a1, r2, s2, a2, c) for r1 in (0, 5) for s1 in (0, 3) for a1 in (0, -2) for r2 in (0, 7)
           for s2 in (0, -4) for a2 in (0, 9) for c in ('absent', None, 0, 1)],
    'srv': [(ms, s) for ms in (0, 1, 60000) for s in ('absent', None, 0, 1)],
    'sc': [(v,) for v in (0, 1, 12345, 65535)],
    'pin': [(p, s, d) for p in (0, 1, 7) for s in (0, 1) for d in (0, 1)],
    'var': [(v, i) for v in (0, 1, 255) for i in (0, 1, 31)],
}


def _with_opt(base, names, vals, kw_rng=None):
    """Build (args, kwargs) dropping trailing 'absent' values; 'absent' in the middle -> keywords."""
    a = list(base)
    k = {}
    positional = True
    for n, v in zip(names, vals):
        if v == 'absent':
            positional = False
            continue
        if positional:
            a.append(v)
        else:
            k[n] = v
    return a, k


def sweep_cells(tier):
    cells = []
    for kind in GRID:
        for prior in ([0, 0, 1], [1, 1, 1], [1, 0, 3], [0, 1, 2], [0, 1, 5]):
            if kind != 'men' and prior != [0, 0, 1]:
                continue
            cells.append([kind, prior])
    return cells


def sweep_expand(cell):
    import random
    kind, prior = cell
    rng = random.Random('c06-sweep')
    pr = {'en1': prior[0], 'en2': prior[1], 'mode': prior[2]}
    groups = []
    for tup in GRID[kind]:
        if kind == 'xy':
            groups.append([('legacy', 'doXYMove', list(tup), {}), ('ebb3', 'xy_move', list(tup), {})])
            groups.append([('legacy', 'doABMove', list(tup), {})])
        elif kind == 'pause':
            groups.append([('legacy', 'doTimedPause', list(tup), {}), ('ebb3', 'timed_pause', list(tup), {})])
        elif kind == 'abs':
            a, k = _with_opt([tup[0]], ['position1', 'position2'], tup[1:])
            groups.append([('legacy', 'doAbsMove', a, k), ('ebb3', 'abs_move', a, k)])
        elif kind == 'pen':
            a, k = _with_opt([tup[0]], ['pin'], tup[1:])
            groups.append([('legacy', 'sendPenDown', a, k), ('ebb3', 'pen_lower', a, k)])
            groups.append([('legacy', 'sendPenUp', a, k), ('ebb3', 'pen_raise', a, k)])
        elif kind == 'men':
            groups.append([('ebb3', 'motors_enable', list(tup), {})])
        elif kind == 'on':
            groups.append([('legacy', 'sendEnableMotors', list(tup), {}), ('ebb3', 'motors_enable', [tup[0], tup[0]], {})])
            groups.append([('legacy', 'sendDisableMotors', [], {}), ('ebb3', 'motors_disable', [], {})])
        elif kind == 'lm':
            a, k = _with_opt(list(tup[:6]), ['clear'], tup[6:])
            groups.append([('legacy', 'doLowLevelMove', a, k)])
        elif kind == 'srv':
            a, k = _with_opt([tup[0]], ['state'], tup[1:])
            groups.append([('legacy', 'servo_timeout', a, k), ('ebb3', 'servo_timeout', a, k)])
        elif kind == 'sc':
            for lf, ef in (('setPenDownPos', 'pen_pos_down'), ('setPenUpPos', 'pen_pos_up'),
                           ('setPenDownRate', 'pen_rate_down'), ('setPenUpRate', 'pen_rate_up')):
                groups.append([('legacy', lf, list(tup), {}), ('ebb3', ef, list(tup), {})])
        elif kind == 'pin':
            groups.append([('legacy', 'PBOutConfig', [tup[0], tup[1]], {}), ('ebb3', 'dio_b_config', [tup[0], tup[1], 0], {})])
            groups.append([('ebb3', 'dio_b_config', list(tup), {})])
            groups.append([('legacy', 'PBOutValue', [tup[0], tup[1]], {}), ('ebb3', 'dio_b_set', [tup[0], tup[1]], {})])
            groups.append([('ebb3', 'dio_b_read', [tup[0]], {})])
        elif kind == 'var':
            groups.append([('ebb3', 'var_write', list(tup), {})])
            groups.append([('ebb3', 'var_read', [tup[1]], {})])
            groups.append([('legacy', 'setEBBLV', [tup[0]], {})])
            groups.append([('legacy', 'queryEBBLV', [], {})])
    if kind in ('xy', 'pause'):
        fl = lambda v: {'float': repr(float(v))}
        groups.insert(0, [('legacy', 'doXYMove', [fl(500), fl(2), fl(750)], {'_nojudge': True})])
        groups.insert(0, [('legacy', 'doXYMove', [True, False, True], {'_nojudge': True})])
        groups.insert(0, [('legacy', 'doABMove', [fl(500), fl(2), fl(750)], {'_nojudge': True})])
        groups.insert(0, [('legacy', 'doTimedPause', [fl(1500)], {'_nojudge': True})])
        groups.insert(0, [('legacy', 'doTimedPause', [fl(2250)], {'_nojudge': True})])
    if kind == 'sc':
        for g in ([('legacy', 'TogglePen', [], {})], [('ebb3', 'clear_steps', [], {})],
                  [('ebb3', 'clear_accumulators', [], {})],
                  [('legacy', 'query_steps', [], {}), ('ebb3', 'query_steps', [], {})],
                  [('ebb3', 'motors_query_enabled', [], {})], [('legacy', 'QueryPenUp', [], {})],
                  [('legacy', 'QueryPRGButton', [], {})], [('legacy', 'query_enable_motors', [], {})],
                  [('legacy', 'queryVoltage', [], {}), ('ebb3', 'query_voltage', [], {})],
                  [('ebb3', 'query_current', [], {})], [('ebb3', 'query_statusbyte', [], {})]):
            groups.append(g)
    # one scenario per group when the prior motor state matters, else batches of 12 groups
    step = 1 if kind == 'men' else 12
    for s in range(0, len(groups), step):
        world = make_world(rng, fw_l=[2, 8, 1], prior=pr)
        cap = 50000 + 2 * sum(a[0] for g in groups[s:s + step] for (_l, fn, a, _k) in g
                              if fn in ('doTimedPause', 'timed_pause') and isinstance(a[0], int) and a[0] > 0)
        yield {'prop': PROP, 'world': world, 'ops': build(world, groups[s:s + step]), 'faults': {}, 'io_cap': cap}
    # no-port variants of the same requests
    for s in range(0, len(groups), 40):
        world = make_world(rng, fw_l=[2, 8, 1], prior=pr)
        yield {'prop': PROP, 'world': world, 'ops': build(world, groups[s:s + 40], no_port=True, unconnected=True),
               'faults': {}}
