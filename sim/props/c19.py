"""
C19 - port discovery picks only EiBotBoards, in enumeration order, and finds by name.

The simulator owns the enumeration seam (comports) and the devices behind the
ports.  Ground truth is the world: descriptor strings per OS style, bus order,
hot-plug.  The oracle never re-implements the matching rules of the lookup
functions; "no earlier port also matches" is made decidable by a conservative
non-confusability test (DESIGN.md section 7, C19).
"""

from common import V, mk_ops, call, lcall
from board import EBB_VIDPID, make_device

PROP = 'C19'
LEVEL = 'exploration'
N_QUICK = 100000
N_THOROUGH = 2500000
WALL_QUICK = 100
WALL_THOROUGH = 1500

REACH_FOCUS = {'ebb_serial': ['findPort', 'find_named_ebb', 'listEBBports', 'list_named_ebbs', 'testPort', 'openPort', 'open_named_port', 'closePort'], 'ebb3_serial': ['find_first', '_get_port_name', 'list_ebb_ports', 'list_named_ebbs', 'find_named', 'connect']}

RULE = ("Scenario = a bus population of 0..6 ports (EBBs named / unnamed in macOS, Linux, Windows, pyserial-2.7 and "
        "description-only descriptor styles; foreign devices; devices whose hardware id carries the EBB VID:PID but "
        "whose description does not; near-miss descriptors that contain but do not start with the product name or "
        "id) in random order, with hot-plug, re-ordering and a raising enumerator between ops; ops = first-board "
        "discovery, listings, named listings and lookups through both layers, by library-reported name (taken at run "
        "time from the listing op's own result), serial tag or port name, each in random letter case, names of absent "
        "boards, and end-to-end connect(name) / open_named_port(name) / openPort(). Sweep part: every descriptor style "
        "x named/unnamed x position x lookup kind x letter case on 1..3-port buses. Non-trivial = population with >= 2 "
        "ports and an EBB not in first position, or a lookup in non-canonical case, or a near-miss device present. "
        "Distinct = (op, population shape, lookup kind, case, target position, outcome class).")

ASSUMPTIONS = [
    "descriptor strings per OS style are modelled after the comments in the lookup code (EiBotBoard,<name>; "
    "SER=<name> LOCATION=...; SNR=<name>; 'USB Serial Device (COMn)')",
    "a population is non-confusable for a lookup string when that string occurs (case-insensitively) in no field of "
    "any other enumerated port; only then is the exact port demanded, otherwise only 'not after the target'",
    "the EBB3 layer is not asked to find boards by an SNR= tag (the statement gives that to the legacy layer only)",
]

STYLES = ['mac', 'linux', 'win', 'py27', 'nameonly']
PORTS = {'mac': ['/dev/cu.usbmodem1411', '/dev/cu.usbmodem14201', '/dev/tty.usbmodem621', '/dev/cu.usbmodem3',
                 '/dev/tty.usbmodemFA131', '/dev/cu.usbmodem8'],
         'linux': ['/dev/ttyACM0', '/dev/ttyACM1', '/dev/ttyACM2', '/dev/ttyACM3', '/dev/ttyACM10', '/dev/ttyACM11'],
         'win': ['COM3', 'COM4', 'COM5', 'COM7', 'COM12', 'COM1'],
         'py27': ['COM3', 'COM4', 'COM5', 'COM7', 'COM12', 'COM1'],
         'nameonly': ['/dev/ttyACM0', '/dev/ttyACM1', '/dev/ttyACM2', '/dev/ttyACM3', '/dev/ttyACM10', '/dev/ttyACM11']}
NICK_POOL = ['Bob', 'AxiDraw_7', 'NextDraw01', 'East', 'east2', 'Plotter', 'ab', 'Zed', 'MiniKit', 'Lab-3', 'bob2',
             'x1y2z3', 'Studio A', 'Axi Draw 2', 'West Wing 3', 'Axi+1', 'Rm[4]', 'Lab(2', 'a.b*c', 'Emma', 'Bart',
             'test rig', 'dot', 'SER', 'OK', ' Axi', 'USB', 'FT232R', 'Arduino', 'My', 'abcdefghijklmnop',
             'Long_Plotter_13', 'East,West', 'A1', 'Z', 'ttyA', 'TTY', 'cu', 'usbmodem', 'dev', 'COM', 'ACM1',
             '/bin', '/lib', '/tmp', '../', '/proc/self/cwd']
FOREIGN = [('FT232R USB UART', 'USB VID:PID=0403:6001 SER=A9XYZ LOCATION=1-3'),
           ('n/a', 'n/a'),
           ('Arduino Uno', 'USB VID:PID=2341:0043 SER=7533 LOCATION=1-1.4'),
           ('My EiBotBoard clone', 'USB VID:PID=1A86:7523 LOCATION=1-5'),
           ('eibotboard', 'PCI USB VID:PID=04D8:FD92'),
           ('USB Serial Device', 'usb vid:pid=04d8:fd92 ser=lower'),
           ('Bluetooth-Incoming-Port', 'n/a')]
VIDONLY = [('USB Serial Device', EBB_VIDPID + ' LOCATION=3-1'), ('CDC RS-232 Emulation Demo', EBB_VIDPID)]


# ---------------------------------------------------------------------------
# ground truth

def descriptors(spec):
    d = make_device(spec)
    return d.descriptors(spec['port'])


class Bus:
    """The enumeration as the world defines it, replayed over the env ops."""

    def __init__(self, scn):
        self.specs = list(scn['world']['boards'])
        self.order = list(range(len(self.specs)))
        self.plugged = [b.get('plugged', True) for b in self.specs]
        self.raises = False

    def apply(self, op):
        w = op['what']
        if w in ('unplug', 'replug'):
            for i, b in enumerate(self.specs):
                if b['port'] == op['port']:
                    self.plugged[i] = (w == 'replug')
        elif w == 'rename':
            for i, b in enumerate(self.specs):
                if b['port'] == op['port'] and b.get('kind') == 'ebb' and 'desc' not in b:
                    self.specs[i] = dict(b, nick=op['nick'])
        elif w == 'reorder':
            self.order = [self.order[i] for i in op['order']]
        elif w == 'bus_raises':
            self.raises = bool(op['on'])

    def ports(self):
        """[(port, desc, hwid, spec)] in enumeration order."""
        out = []
        for i in self.order:
            if self.plugged[i]:
                b = self.specs[i]
                desc, hwid = descriptors(b)
                out.append((b['port'], desc, hwid, b))
        return out


def is_listed(desc, hwid):
    return desc.startswith('EiBotBoard') or hwid.startswith(EBB_VIDPID)


def first_board(ports):
    for p, d, h, _ in ports:
        if d.startswith('EiBotBoard'):
            return p
    for p, d, h, _ in ports:
        if h.startswith(EBB_VIDPID):
            return p
    return None


def could_match(entry, x):
    """Could this port be said to 'also match' the lookup string?  Deliberately generous: the string occurs
    (case-insensitively) in the port name, anywhere in the hardware id, inside parentheses in the description,
    or in the description after the width of the product-name prefix.  Only the product-name prefix region
    itself cannot carry a name."""
    import re
    p, d, h, _ = entry
    # blanks and underscores are interchangeable in serial tags (Windows shows one for the other; the lookup
    # code means to try both), so a port whose fields carry the string in the other spelling also "matches"
    norm = lambda t: t.lower().replace('_', ' ')
    x = norm(x)
    paren = norm(' '.join(re.findall(r'\(([^)]*)\)', d)))
    # (a port name is matched from its beginning: a string that merely occurs somewhere inside another port's
    #  path - its directory, its basename - does not make that port "also match")
    return norm(p).startswith(x) or x in norm(h) or x in norm(d[11:]) or x in paren


def tag_of(entry):
    """Serial-number tag as it appears in the hardware id: ('SER'|'SNR', text) or None."""
    h = entry[2]
    for key in ('SER=', 'SNR='):
        if key in h:
            rest = h.split(key, 1)[1]
            if key == 'SER=':
                rest = rest.split(' LOCAT', 1)[0]
            return key[:3], rest
    return None


def portinfo_list(ret):
    if ret is None:
        return None
    if isinstance(ret, dict) and 'list' in ret:
        out = []
        for x in ret['list']:
            if isinstance(x, dict) and 'portinfo' in x:
                out.append(x['portinfo'][0])
            else:
                out.append(x)
        return out
    return 'bad'


LOOKUPS = {'ebb_serial.find_named_ebb': 'legacy', 'ebb3_serial.find_named': 'ebb3'}


def check(scn, hist):
    out = []
    if hist.hang:
        out.append(V(PROP, 'hang', '?', None, hist.hang))
        return out
    bus = Bus(scn)
    epoch = 0
    named = {}          # layer -> (epoch, names, op id): the two layers must report the same names
    for i, rec in enumerate(hist.ops):
        op = rec['op']
        oid = rec['id']
        if op['op'] == 'env':
            bus.apply(op)
            epoch += 1
            continue
        ports = bus.ports()
        names_now = [p[0] for p in ports]
        if op['op'] == 'lcall':
            f = op['f']
            fn = f.split('.')[1]
            if rec['exc'] is not None and fn in ('findPort', 'listEBBports', 'list_ebb_ports', 'list_named_ebbs',
                                                 'find_named_ebb', 'find_named'):
                out.append(V(PROP, 'raised', fn, oid, '%s: %s' % (rec['exc'], rec['exc_msg'])))
                continue
            if fn == 'findPort':
                want = None if bus.raises else first_board(ports)
                if rec['ret'] != want:
                    out.append(V(PROP, 'first_board', fn, oid, 'returned %r, expected %r on bus %r'
                                 % (rec['ret'], want, [(p, d, h) for p, d, h, _ in ports])))
            elif fn in ('listEBBports', 'list_ebb_ports'):
                want = [p for p, d, h, _ in ports if is_listed(d, h)] or None
                if bus.raises:
                    want = None
                got = portinfo_list(rec['ret'])
                if got != want:
                    out.append(V(PROP, 'listing', fn, oid, 'returned %r, expected %r on bus %r'
                                 % (got, want, [(p, d, h) for p, d, h, _ in ports])))
            elif fn == 'list_named_ebbs':
                listed = [e for e in ports if is_listed(e[1], e[2])]
                got = rec['ret']
                if bus.raises or not listed:
                    if got is not None:
                        out.append(V(PROP, 'listing', f, oid, 'returned %r for an empty / failing enumeration' % (got,)))
                elif not (isinstance(got, dict) and 'list' in got and len(got['list']) == len(listed)):
                    out.append(V(PROP, 'listing', f, oid, 'returned %r for %d listed boards' % (got, len(listed))))
                else:
                    layer = 'legacy' if f.startswith('ebb_serial.') else 'ebb3'
                    named[layer] = (epoch, got['list'], oid)
                    other = named.get('ebb3' if layer == 'legacy' else 'legacy')
                    if other is not None and other[0] == epoch:
                        for k, (x1, x2) in enumerate(zip(got['list'], other[1])):
                            t = tag_of(listed[k])
                            if t is not None and t[0] == 'SNR':
                                continue          # only the legacy layer understands the old SNR= tag
                            if x1 != x2:
                                out.append(V(PROP, 'layers_disagree', 'list_named_ebbs', oid,
                                             'board %d (%r, %r) is reported as %r by one layer and %r by the other'
                                             % (k, listed[k][1], listed[k][2], x1, x2)))
                                break
            elif f in LOOKUPS:
                layer = LOOKUPS[f]
                x = rec.get('args_resolved', [None])[0] if rec.get('args_resolved') else None
                msg = judge_lookup(op, rec['ret'], x, ports, names_now, bus, layer)
                if msg:
                    out.append(V(PROP, msg[0], fn, oid, msg[1]))
            elif fn in ('open_named_port', 'openPort', 'testPort'):
                if fn == 'openPort':
                    want = None if bus.raises else first_board(ports)
                    opened = rec['opened'][0] if rec['opened'] else (rec['io'] and _attempted(rec))
                    att = _attempted_port(rec, hist)
                    if att is not None and att != want:
                        out.append(V(PROP, 'connect_wrong_device', fn, oid, 'probed %r, first board is %r' % (att, want)))
                    if att is None and want is not None and rec['exc'] is None and not rec['io']:
                        out.append(V(PROP, 'connect_wrong_device', fn, oid, 'no port opened, first board is %r' % (want,)))
                elif fn == 'open_named_port':
                    x = rec.get('args_resolved', [None])[0] if rec.get('args_resolved') else None
                    att = _attempted_port(rec, hist)
                    msg = judge_lookup(op, att, x, ports, names_now, bus, 'legacy', e2e=True)
                    if msg:
                        out.append(V(PROP, 'connect_wrong_device' if msg[0] != 'lookup_not_in_list' else msg[0],
                                     fn, oid, msg[1]))
        elif op['op'] == 'call':
            m = op['m']
            if m == 'find_first':
                if rec['exc'] is not None:
                    out.append(V(PROP, 'raised', 'find_first', oid, '%s: %s' % (rec['exc'], rec['exc_msg'])))
                elif not bus.raises:
                    want = first_board(ports)
                    if rec['after']['port_name'] != want:
                        out.append(V(PROP, 'first_board', 'find_first', oid, 'port_name %r, expected %r on bus %r'
                                     % (rec['after']['port_name'], want, [(p, d, h) for p, d, h, _ in ports])))
            elif m == 'connect' and rec['before']['port'] is None:
                a = rec.get('args_resolved') or []
                given = a[0] if a else None
                if given is None and 'given_name' in op.get('k', {}):
                    given = None      # keyword refs are not used by the generator
                att = _attempted_port(rec, hist)
                if not op.get('a') and not op.get('k'):
                    if bus.raises:
                        # no list exists when the enumerator itself fails; the statement quantifies over
                        # lists.  (find_first keeps an earlier port_name in that case: observation O7.)
                        continue
                    want = first_board(ports)
                    if att is not None and att != want:
                        out.append(V(PROP, 'connect_wrong_device', m, oid, 'probed %r, first board is %r' % (att, want)))
                    elif att is None and want is not None and rec['exc'] is None:
                        out.append(V(PROP, 'connect_wrong_device', m, oid, 'nothing probed, first board is %r' % (want,)))
                elif given is not None:
                    msg = judge_lookup(op, att, given, ports, names_now, bus, 'ebb3', e2e=True)
                    if msg:
                        out.append(V(PROP, 'connect_wrong_device' if msg[0] != 'lookup_not_in_list' else msg[0],
                                     m, oid, msg[1]))
    return out


def _attempted(rec):
    return None


def _attempted_port(rec, hist):
    """Port on which this op attempted to open a connection / which device got the probe."""
    if rec.get('open_attempts'):
        return rec['open_attempts'][0]
    for ev in rec['trace']:
        if ev[0] == 'w':
            return ev[1]
    if rec['opened']:
        return rec['opened'][0]
    return None


def judge_lookup(op, got, x, ports, names_now, bus, layer, e2e=False):
    """Judge a by-name lookup whose answer was `got` (a port name or None)."""
    meta = op.get('look', {})
    if got is not None and got not in names_now:
        return ('lookup_not_in_list', 'returned %r, enumeration is %r' % (got, names_now))
    if bus.raises:
        if got is not None:
            return ('lookup_not_in_list', 'returned %r although the enumeration failed' % (got,))
        return None
    if x is None:
        if got is not None:
            return ('lookup_wrong_target', 'lookup of None returned %r' % (got,))
        return None
    if not isinstance(x, str) or not x:
        return None
    kind = meta.get('kind')
    tgt = meta.get('target')           # port name of the board the generator aimed at
    if kind == 'absent':
        if not any(could_match(e, x) for e in ports) and got is not None:
            return ('lookup_wrong_target', 'no enumerated port carries %r, yet %r was returned' % (x, got))
        return None
    if kind == 'listed':
        # x is the item-th name of the listing op's own answer: the target is the item-th listed board
        listed = [e for e in ports if is_listed(e[1], e[2])]
        k = meta.get('item', 0)
        if k >= len(listed) or meta.get('stale_bus'):
            return None
        tgt = listed[k][0]
        if layer == 'ebb3' and meta.get('from') == 'legacy' and tag_of(listed[k]) and tag_of(listed[k])[0] == 'SNR':
            return None       # a name only the legacy layer can know (SNR=)
    if tgt is None or tgt not in names_now:
        return None
    ti = names_now.index(tgt)
    entry = ports[ti]
    if kind == 'tag':
        t = tag_of(entry)
        if t is None or t[1].lower() != x.lower():
            return None
        if layer == 'ebb3' and t[0] == 'SNR':
            return None
    if kind == 'port' and entry[0].lower() != x.lower():
        return None
    if got is None:
        return ('lookup_skipped_target', '%s lookup of %r returned None; board is at %r (%r, %r)'
                % (kind, x, entry[0], entry[1], entry[2]))
    gi = names_now.index(got)
    if gi > ti:
        return ('lookup_skipped_target', '%s lookup of %r returned %r (position %d), target %r is at position %d'
                % (kind, x, got, gi, tgt, ti))
    if gi < ti:
        if not any(could_match(ports[j], x) for j in range(ti)):
            return ('lookup_wrong_target', '%s lookup of %r returned %r, which carries that text nowhere; target is %r'
                    % (kind, x, got, tgt))
    return None


def classify(scn, hist):
    keys = []
    boards = scn['world']['boards']
    shape = '%d:%s' % (len(boards), ''.join(sorted(set((b.get('style') or b.get('kind', '?'))[0] for b in boards))))
    for rec in hist.ops:
        op = rec['op']
        if op['op'] == 'lcall':
            fn = op['f']
            look = op.get('look', {})
            x = (rec.get('args_resolved') or [None])[0]
            case = 'none'
            if isinstance(x, str) and x:
                case = 'lower' if x == x.lower() and x != x.upper() else 'upper' if x == x.upper() and x != x.lower() else 'mixed'
            res = 'None' if rec['ret'] is None else 'val'
            if len(boards) >= 2 or look or case != 'none':
                keys.append('%s|%s|%s|%s|%s|%s' % (fn, shape, look.get('kind', '-'), case, look.get('pos', '-'), res))
        elif op['op'] == 'call' and op['m'] in ('connect', 'find_first'):
            look = op.get('look', {})
            keys.append('%s|%s|%s|%s|%s' % (op['m'], shape, look.get('kind', '-'), look.get('pos', '-'),
                                            rec['ret']))
    return keys


def observe(scn, hist, st):
    for b in scn['world']['boards']:
        st['sets']['device_styles'].add(b.get('style') or b.get('kind'))
    raising = False
    for rec in hist.ops:
        op = rec['op']
        if op['op'] == 'env':
            st['extra']['env_' + op['what']] += 1
            if op['what'] == 'bus_raises':
                raising = bool(op['on'])
        elif raising and op['op'] == 'call' and op['m'] == 'connect' and not op.get('a') and rec.get('open_attempts'):
            st['extra']['O7_connect_used_stale_port_name_while_enumerator_failed'] += 1


# ---------------------------------------------------------------------------
# generation

def make_bus(rng, n=None):
    n = rng.choice([0, 1, 1, 2, 2, 3, 3, 4, 5, 6]) if n is None else n
    style = rng.choice(['mac', 'linux', 'win', 'py27'])
    mixed = rng.random() < 0.15
    names = rng.sample(NICK_POOL, len(NICK_POOL))
    ports = list(PORTS[style])
    rng.shuffle(ports)
    boards = []
    for i in range(n):
        st = style if not mixed else rng.choice(['mac', 'linux', 'nameonly'] if style in ('mac', 'linux') else ['win', 'py27'])
        if style in ('mac', 'linux') and rng.random() < 0.1:
            st = 'nameonly'
        r = rng.random()
        port = ports[i]
        if r < 0.6:
            nick = names.pop() if rng.random() < 0.7 else ''
            if st in ('win', 'py27') and rng.random() < 0.5:
                nick = nick.replace(' ', '_')      # Windows usually shows the tag with underscores
            spec = {'port': port, 'kind': 'ebb', 'fw': [3, 0, 2] if rng.random() < 0.7 else [2, 8, 1], 'nick': nick,
                    'style': st, 'loc': '%d-%d' % (rng.randint(1, 20), i + 1)}
        elif r < 0.85:
            d, h = rng.choice(FOREIGN)
            spec = {'port': port, 'kind': rng.choice(['foreign', 'silent']), 'desc': d, 'hwid': h}
        else:
            d, h = rng.choice(VIDONLY)
            spec = {'port': port, 'kind': rng.choice(['foreign', 'silent', 'ebb']), 'desc': d, 'hwid': h}
            if spec['kind'] == 'ebb':
                # an EBB whose descriptors are not in any of the usual styles (description without product name)
                spec.update({'fw': [3, 0, 2], 'nick': '', 'style': 'win', 'loc': '3-1'})
                spec.pop('desc')
                spec.pop('hwid')
        if rng.random() < 0.05:
            spec['plugged'] = False
        boards.append(spec)
    return boards


def recase_choice(rng):
    return rng.choice([None, None, 'upper', 'lower', 'swap'])


def gen_lookup(rng, boards, listing_ops):
    """One lookup op (either layer) with metadata telling the oracle what was aimed at."""
    layer = rng.choice(['legacy', 'ebb3'])
    f = 'ebb_serial.find_named_ebb' if layer == 'legacy' else 'ebb3_serial.find_named'
    r = rng.random()
    case = recase_choice(rng)
    ebbs = [b for b in boards if b.get('kind') == 'ebb']
    if r < 0.35 and listing_ops:
        lop, lfrom = rng.choice(listing_ops)
        item = rng.randint(0, max(0, len(ebbs)))
        op = lcall(f, [{'ret_of': lop, 'item': item, 'case': case}])
        op['look'] = {'kind': 'listed', 'item': item, 'from': lfrom, 'listing': lop}
        return op
    if r < 0.6 and ebbs:
        b = rng.choice(ebbs)
        if b.get('nick'):
            from run import recase
            op = lcall(f, [recase(b['nick'], case)])
            op['look'] = {'kind': 'tag', 'target': b['port'], 'pos': boards.index(b)}
            return op
    if r < 0.85 and boards:
        b = rng.choice(boards)
        from run import recase
        op = lcall(f, [recase(b['port'], case)])
        op['look'] = {'kind': 'port', 'target': b['port'], 'pos': boards.index(b)}
        return op
    if r < 0.97:
        op = lcall(f, [rng.choice(['Nobody', 'COM99', '/dev/ttyACM77', 'zz', 'EiBotBoard9', 'SER=', 'Bobby', 'xyz123'])])
        op['look'] = {'kind': 'absent'}
        return op
    op = lcall(f, [None])
    op['look'] = {'kind': 'none'}
    return op


def gen(rng, idx):
    boards = make_bus(rng)
    world = {'boards': boards, 'enum': rng.choice(['list', 'list', 'iter', 'tuple'])}
    ops = []
    listing_ops = []
    n = rng.randint(3, 16)
    nobj = 0
    bus_changed_since = {}
    for _ in range(n):
        r = rng.random()
        if r < 0.10:
            ops.append(lcall('ebb_serial.findPort'))
        elif r < 0.18:
            if nobj and rng.random() < 0.5:
                ops.append(call(rng.randrange(nobj), 'find_first'))       # same object, the bus may have changed
            else:
                ops.append({'op': 'new', 'obj': nobj})
                ops.append(call(nobj, 'find_first'))
                nobj += 1
        elif r < 0.26:
            ops.append(lcall(rng.choice(['ebb_serial.listEBBports', 'ebb3_serial.list_ebb_ports'])))
        elif r < 0.38:
            lay = rng.choice(['legacy', 'ebb3'])
            ops.append(lcall('ebb_serial.list_named_ebbs' if lay == 'legacy' else 'ebb3_serial.list_named_ebbs'))
            listing_ops.append((len(ops) - 1, lay))
        elif r < 0.72:
            ops.append(gen_lookup(rng, boards, listing_ops))
        elif r < 0.80 and boards:
            # end to end through the EBB3 layer
            b = rng.choice(boards)
            if nobj and rng.random() < 0.4:
                k_ = rng.randrange(nobj)                                 # an object with a past
            else:
                k_ = nobj
                ops.append({'op': 'new', 'obj': nobj})
                nobj += 1
            x = rng.random()
            from run import recase
            case = recase_choice(rng)
            if x < 0.3:
                c = call(k_, 'connect')
            elif x < 0.65 and b.get('nick'):
                c = call(k_, 'connect', [recase(b['nick'], case)])
                c['look'] = {'kind': 'tag', 'target': b['port'], 'pos': boards.index(b)}
            else:
                c = call(k_, 'connect', [recase(b['port'], case)])
                c['look'] = {'kind': 'port', 'target': b['port'], 'pos': boards.index(b)}
            ops.append(c)
            ops.append(call(k_, 'disconnect'))
        elif r < 0.88 and boards:
            b = rng.choice(boards)
            from run import recase
            case = recase_choice(rng)
            x = rng.random()
            if x < 0.3:
                o = lcall('ebb_serial.openPort', [], store=50 + len(ops))
            elif x < 0.65 and b.get('nick'):
                o = lcall('ebb_serial.open_named_port', [recase(b['nick'], case)], store=50 + len(ops))
                o['look'] = {'kind': 'tag', 'target': b['port'], 'pos': boards.index(b)}
            else:
                o = lcall('ebb_serial.open_named_port', [recase(b['port'], case)], store=50 + len(ops))
                o['look'] = {'kind': 'port', 'target': b['port'], 'pos': boards.index(b)}
            ops.append(o)
            ops.append(lcall('ebb_serial.closePort', [{'slot': o['store']}]))
        elif boards:
            # environment change: the listings taken before it no longer describe the bus
            x = rng.random()
            named = [b for b in boards if b.get('kind') == 'ebb' and 'desc' not in b]
            if x < 0.2 and named:
                b = rng.choice(named)
                nn = rng.choice(NICK_POOL + [''])
                if b.get('style') in ('win', 'py27') and rng.random() < 0.5:
                    nn = nn.replace(' ', '_')
                ops.append({'op': 'env', 'what': 'rename', 'port': b['port'], 'nick': nn})
            elif x < 0.3:
                ops.append({'op': 'env', 'what': 'unplug', 'port': rng.choice(boards)['port']})
            elif x < 0.55:
                ops.append({'op': 'env', 'what': 'replug', 'port': rng.choice(boards)['port']})
            elif x < 0.85:
                order = list(range(len(boards)))
                rng.shuffle(order)
                ops.append({'op': 'env', 'what': 'reorder', 'order': order})
            else:
                ops.append({'op': 'env', 'what': 'bus_raises', 'on': rng.random() < 0.6})
            listing_ops = []
    # ports that are enumerated but cannot be opened (held by another program): discovery is by descriptor only
    # (drawn last so that the rest of the scenario is the one the same seed gave before)
    for b in boards:
        if rng.random() < 0.08:
            b['open_fails'] = True
    mk_ops(ops)
    # listing references were recorded by position; rewrite them to op ids
    for op in ops:
        for a in op.get('a', []):
            if isinstance(a, dict) and 'ret_of' in a:
                a['ret_of'] = ops[a['ret_of']]['id']
        if 'look' in op and 'listing' in op['look']:
            op['look']['listing'] = ops[op['look']['listing']]['id']
    return {'prop': PROP, 'world': world, 'ops': ops, 'faults': {}, 'snap_dev': False}


# ---------------------------------------------------------------------------
# sweep: every descriptor style x named/unnamed x position x lookup kind x case

def sweep_cells(tier):
    cells = []
    for style in STYLES:
        for named in (0, 1, 2):
            cells.append([style, named])
        cells.append(['_history', style])
    return cells


def history_scenarios(style):
    """The same name looked up twice with the bus changing in between: a lookup may not remember."""
    ports = PORTS[style]
    pa, pb = ports[0], ports[1]

    def ebb(port, nick, loc):
        return {'port': port, 'kind': 'ebb', 'fw': [3, 0, 2], 'nick': nick, 'style': style, 'loc': loc}
    for f, lay in (('ebb_serial.find_named_ebb', 'legacy'), ('ebb3_serial.find_named', 'ebb3')):
        def look(x, kind, tgt):
            o = lcall(f, [x])
            o['look'] = {'kind': kind, 'target': tgt}
            return o
        # H1: two boards swap nicknames between two lookups of the same name
        boards = [ebb(pa, 'Alpha_1', '1-1'), ebb(pb, 'Beta_22', '1-2')]
        ops = [look('Alpha_1', 'tag', pa), look('beta_22', 'tag', pb),
               {'op': 'env', 'what': 'rename', 'port': pa, 'nick': 'Gamma_3'},
               {'op': 'env', 'what': 'rename', 'port': pb, 'nick': 'Alpha_1'},
               look('Alpha_1', 'tag', pb), look('ALPHA_1', 'tag', pb), look('Gamma_3', 'tag', pa),
               look('Beta_22', 'absent', None),
               {'op': 'env', 'what': 'unplug', 'port': pb}, look('Alpha_1', 'absent', None),
               {'op': 'env', 'what': 'replug', 'port': pb}, look('Alpha_1', 'tag', pb)]
        yield {'prop': PROP, 'world': {'boards': boards}, 'ops': mk_ops(ops), 'faults': {}, 'snap_dev': False}
        # H2: a port name that is a prefix of another; the shorter one appears later, earlier in bus order
        long_name = pa + '2'
        boards = [dict(ebb(pa, 'Short_1', '1-1'), plugged=False), ebb(long_name, 'Long_22', '1-2')]
        ops = [look(pa, 'port', pa), {'op': 'env', 'what': 'replug', 'port': pa}, look(pa, 'port', pa),
               look(pa.upper(), 'port', pa), look(long_name, 'port', long_name),
               {'op': 'env', 'what': 'unplug', 'port': pa}, look(pa, 'port', pa),
               {'op': 'env', 'what': 'replug', 'port': pa}, look(pa.lower(), 'port', pa)]
        yield {'prop': PROP, 'world': {'boards': boards}, 'ops': mk_ops(ops), 'faults': {}, 'snap_dev': False}
    # H4: an earlier board that carries the name only in its description (no serial tag), a later board whose
    #     serial tag merely starts with that name: every criterion is tried port by port, so the earlier wins
    if style in ('mac', 'linux', 'nameonly'):
        for f, lay in (('ebb_serial.find_named_ebb', 'legacy'), ('ebb3_serial.find_named', 'ebb3')):
            first = {'port': pa, 'kind': 'ebb', 'fw': [3, 0, 2], 'nick': 'East', 'style': 'nameonly', 'loc': '1-1'}
            later = ebb(pb, 'Eastwing', '1-2')
            ops = []
            for x in ('East', 'east', 'EAST'):
                o = lcall(f, [x])
                o['look'] = {'kind': 'name', 'target': pa}
                ops.append(o)
            o = lcall(f, ['Eastwing'])
            o['look'] = {'kind': 'tag', 'target': pb}
            ops.append(o)
            yield {'prop': PROP, 'world': {'boards': [first, later]}, 'ops': mk_ops(ops), 'faults': {}, 'snap_dev': False}
    # H5: the first board is enumerated but cannot be opened (another program holds it): it is still the first
    for first_ok in (False, True):
        boards = [dict(ebb(pa, 'Alpha_1', '1-1'), open_fails=not first_ok), ebb(pb, 'Beta_22', '1-2')]
        if first_ok:
            boards.insert(1, dict(ebb(ports[2], 'Mid_7', '1-3'), open_fails=True))
        f1 = lcall('ebb_serial.find_named_ebb', ['Alpha_1'])
        f1['look'] = {'kind': 'tag', 'target': pa}
        f2 = lcall('ebb3_serial.find_named', ['alpha_1'])
        f2['look'] = {'kind': 'tag', 'target': pa}
        ops = [lcall('ebb_serial.findPort'), {'op': 'new', 'obj': 0}, call(0, 'find_first'),
               lcall('ebb_serial.listEBBports'), lcall('ebb3_serial.list_ebb_ports'),
               lcall('ebb_serial.list_named_ebbs'), lcall('ebb3_serial.list_named_ebbs'), f1, f2,
               lcall('ebb_serial.openPort', [], store=72), lcall('ebb_serial.closePort', [{'slot': 72}]),
               call(0, 'connect'), call(0, 'disconnect'), lcall('ebb_serial.findPort'), call(0, 'find_first')]
        yield {'prop': PROP, 'world': {'boards': boards}, 'ops': mk_ops(ops), 'faults': {}, 'snap_dev': False}
    # H3: end to end on one object: connect by name, disconnect, names swap, connect by the same name again
    boards = [ebb(pa, 'Alpha_1', '1-1'), ebb(pb, 'Beta_22', '1-2')]
    c1 = call(0, 'connect', ['Alpha_1'])
    c1['look'] = {'kind': 'tag', 'target': pa}
    c2 = call(0, 'connect', ['Alpha_1'])
    c2['look'] = {'kind': 'tag', 'target': pb}
    o1 = lcall('ebb_serial.open_named_port', ['Alpha_1'], store=70)
    o1['look'] = {'kind': 'tag', 'target': pa}
    o2 = lcall('ebb_serial.open_named_port', ['Alpha_1'], store=71)
    o2['look'] = {'kind': 'tag', 'target': pb}
    ops = [{'op': 'new', 'obj': 0}, c1, call(0, 'disconnect'), o1, lcall('ebb_serial.closePort', [{'slot': 70}]),
           {'op': 'env', 'what': 'rename', 'port': pa, 'nick': 'Gamma_3'},
           {'op': 'env', 'what': 'rename', 'port': pb, 'nick': 'Alpha_1'},
           c2, call(0, 'disconnect'), o2, lcall('ebb_serial.closePort', [{'slot': 71}])]
    yield {'prop': PROP, 'world': {'boards': boards}, 'ops': mk_ops(ops), 'faults': {}, 'snap_dev': False}


def sweep_expand(cell):
    from run import recase
    if cell[0] == '_history':
        for scn in history_scenarios(cell[1]):
            yield scn
            yield dict(scn, world=dict(scn['world'], enum='iter'))
        return
    style, named = cell
    tname = 'Target 7' if named == 2 else 'Target_7'
    ports = PORTS[style]
    for nports in (1, 2, 3):
        for pos in range(nports):
            for filler in ('foreign', 'ebb_other', 'vidonly'):
                boards = []
                for i in range(nports):
                    if i == pos:
                        nick = tname if named else ''
                        boards.append({'port': ports[i], 'kind': 'ebb', 'fw': [3, 0, 2], 'nick': nick, 'style': style,
                                       'loc': '1-%d' % (i + 1)})
                    elif filler == 'foreign':
                        d, h = FOREIGN[i % len(FOREIGN)]
                        boards.append({'port': ports[i], 'kind': 'silent', 'desc': d, 'hwid': h})
                    elif filler == 'vidonly':
                        d, h = VIDONLY[i % len(VIDONLY)]
                        boards.append({'port': ports[i], 'kind': 'silent', 'desc': d, 'hwid': h})
                    else:
                        boards.append({'port': ports[i], 'kind': 'ebb', 'fw': [3, 0, 2], 'nick': 'Other%d' % i,
                                       'style': style, 'loc': '1-%d' % (i + 1)})
                tport = ports[pos]
                ops = [lcall('ebb_serial.findPort'), {'op': 'new', 'obj': 0}, call(0, 'find_first'),
                       lcall('ebb_serial.listEBBports'), lcall('ebb3_serial.list_ebb_ports'),
                       lcall('ebb_serial.list_named_ebbs'), lcall('ebb3_serial.list_named_ebbs')]
                li_leg, li_e3 = 5, 6
                n_ebb = sum(1 for b in boards if b['kind'] == 'ebb')
                for case in (None, 'upper', 'lower', 'swap'):
                    for f, lay in (('ebb_serial.find_named_ebb', 'legacy'), ('ebb3_serial.find_named', 'ebb3')):
                        for item in range(n_ebb + 1):
                            for lop, lfrom in ((li_leg, 'legacy'), (li_e3, 'ebb3')):
                                o = lcall(f, [{'ret_of': lop, 'item': item, 'case': case}])
                                o['look'] = {'kind': 'listed', 'item': item, 'from': lfrom, 'listing': lop}
                                ops.append(o)
                        if named:
                            o = lcall(f, [recase(tname, case)])
                            o['look'] = {'kind': 'tag', 'target': tport, 'pos': pos}
                            ops.append(o)
                        o = lcall(f, [recase(tport, case)])
                        o['look'] = {'kind': 'port', 'target': tport, 'pos': pos}
                        ops.append(o)
                        o = lcall(f, ['Nobody'])
                        o['look'] = {'kind': 'absent'}
                        ops.append(o)
                k = 1
                for given, look in ((None, None), (tname if named else None, 'tag'), (tport, 'port'),
                                    (tport.lower(), 'port'), (tname.upper() if named else None, 'tag')):
                    if look is not None and given is None:
                        continue
                    ops.append({'op': 'new', 'obj': k})
                    c = call(k, 'connect', [given] if given else [])
                    if look:
                        c['look'] = {'kind': look, 'target': tport, 'pos': pos}
                    ops += [c, call(k, 'disconnect')]
                    o = lcall('ebb_serial.open_named_port', [given], store=60 + k) if given else \
                        lcall('ebb_serial.openPort', [], store=60 + k)
                    if look:
                        o['look'] = {'kind': look, 'target': tport, 'pos': pos}
                    ops += [o, lcall('ebb_serial.closePort', [{'slot': 60 + k}])]
                    k += 1
                ops.append({'op': 'env', 'what': 'bus_raises', 'on': True})
                ops += [lcall('ebb_serial.findPort'), lcall('ebb_serial.listEBBports'),
                        lcall('ebb3_serial.list_ebb_ports'), lcall('ebb_serial.list_named_ebbs'),
                        lcall('ebb3_serial.list_named_ebbs'), lcall('ebb_serial.find_named_ebb', [tport]),
                        lcall('ebb3_serial.find_named', [tport])]
                mk_ops(ops)
                for op in ops:
                    for a in op.get('a', []):
                        if isinstance(a, dict) and 'ret_of' in a:
                            a['ret_of'] = ops[a['ret_of']]['id']
                yield {'prop': PROP, 'world': {'boards': boards}, 'ops': ops, 'faults': {}, 'snap_dev': False}
                yield {'prop': PROP, 'world': {'boards': boards, 'enum': 'iter'}, 'ops': ops, 'faults': {},
                       'snap_dev': False}
