#!/venv/bin/python
"""
mutest.py - sensitivity driver: apply a patch to a scratch copy of /repo (never to
/repo itself), optionally run the baseline tests there, run the named checks
against the copy, report which checks caught it, remove the copy.

  mutest.py [--tests] [--tier quick] [--runs N] PATCH[:PROP,PROP...] ...
  mutest.py --all            # every entry of /verif/mutants/INDEX.json and /verif/seeded/*/meta.json
"""

import argparse
import json
import os
import shutil
import subprocess
import sys
import tempfile

HERE = os.path.dirname(os.path.abspath(__file__))
VERIF = os.path.dirname(HERE)
PY = sys.executable


def scratch_copy():
    d = tempfile.mkdtemp(prefix='plotink-mut-')
    subprocess.run(['rsync', '-a', '--exclude', '.git', '--exclude', '__pycache__', '--exclude', '.benchmarks',
                    '/repo/', d + '/'], check=True)
    return d


def run_one(patch, props, tier, runs, tests):
    d = scratch_copy()
    try:
        p = subprocess.run(['patch', '-p1', '-s', '-d', d, '-i', os.path.abspath(patch)], capture_output=True, text=True)
        if p.returncode != 0:
            return {'patch': patch, 'error': 'patch failed: ' + p.stdout + p.stderr}
        res = {'patch': patch, 'checks': {}}
        if tests:
            t = subprocess.run([PY, '-m', 'pytest', '-q', '-p', 'no:cacheprovider', '-x'], cwd=d, capture_output=True,
                               text=True, env=dict(os.environ, PYTHONDONTWRITEBYTECODE='1'))
            res['baseline_tests_pass'] = t.returncode == 0
            res['baseline_tail'] = t.stdout.strip().splitlines()[-1:] if t.stdout else []
        env = dict(os.environ, PLOTINK_REPO=d, VERIF_REPLAY_DIR=os.path.join(d, '_replays'))
        for pid in props:
            cmd = [PY, '-B', os.path.join(HERE, 'check.py'), pid, '--tier', tier, '--no-evidence']
            if runs:
                cmd += ['--runs', str(runs)]
            c = subprocess.run(cmd, capture_output=True, text=True, env=env)
            classes = [ln.split('class=')[1].split()[0] for ln in c.stdout.splitlines() if 'class=' in ln]
            res['checks'][pid] = {'exit': c.returncode, 'classes': classes[:12],
                                  'tail': c.stdout.strip().splitlines()[-1:] if c.returncode not in (0, 1) else []}
        return res
    finally:
        shutil.rmtree(d, ignore_errors=True)


def main():
    ap = argparse.ArgumentParser()
    ap.add_argument('items', nargs='*')
    ap.add_argument('--all', action='store_true')
    ap.add_argument('--tests', action='store_true')
    ap.add_argument('--tier', default='quick')
    ap.add_argument('--runs', type=int)
    ap.add_argument('--every', action='store_true', help='run all seven checks, not only the expected ones')
    ap.add_argument('--json', help='write results to this file')
    ap.add_argument('--par', type=int, default=1, help='patches handled concurrently')
    ap.add_argument('--green-runs', type=int, default=16000,
                    help='random runs per check for patches expected to stay green (they go through all seven checks)')
    ap.add_argument('--merge', action='store_true', help='with --json: keep the entries of patches not run now')
    ap.add_argument('--only', help='substring filter on patch paths')
    args = ap.parse_args()
    items = []
    ALL = ['C04', 'C05', 'C06', 'C07', 'C15', 'C16', 'C19']
    expect_green = set()
    no_expectation = set()
    if args.all:
        # file name convention: cNN-*.patch must be caught by CNN; revert-Dk.patch by the property of defect Dk;
        # equiv-cNN-*.patch must NOT be caught (behaviour-preserving / unobservable); undecided-cNN-* : either
        REV = {'D1': 'C07', 'D2': 'C05', 'D3': 'C05', 'D4': 'C05', 'D5': 'C06', 'D6': 'C15'}
        md = os.path.join(VERIF, 'mutants')
        for n in sorted(os.listdir(md)):
            if not n.endswith('.patch'):
                continue
            p = os.path.join(md, n)
            if n.startswith('revert-'):
                items.append((p, [REV[n[7:9]]]))
            elif n.startswith('equiv-'):
                items.append((p, ALL))       # a behaviour-preserving rewrite must leave every check green
                expect_green.add(p)
            elif n.startswith('undecided-'):
                items.append((p, [n[10:13].upper()]))
                no_expectation.add(p)
            else:
                items.append((p, [n[:3].upper()]))
        rd = os.path.join(VERIF, 'refactors')
        if os.path.isdir(rd):
            for n in sorted(os.listdir(rd)):
                pth = os.path.join(rd, n, 'patch.diff')
                meta = os.path.join(rd, n, 'meta.json')
                if os.path.exists(pth) and os.path.exists(meta) and not json.load(open(meta)).get('breaks_property'):
                    items.append((pth, ALL))
                    expect_green.add(pth)
        sd = os.path.join(VERIF, 'seeded')
        if os.path.isdir(sd):
            for n in sorted(os.listdir(sd)):
                meta = os.path.join(sd, n, 'meta.json')
                if os.path.exists(meta):
                    m = json.load(open(meta))
                    items.append((os.path.join(sd, n, 'patch.diff'), m['props']))
    for it in args.items:
        if ':' in it:
            p, props = it.split(':', 1)
            items.append((p, props.split(',')))
        else:
            items.append((it, ALL))
    bad = 0
    results = []
    if args.only:
        items = [(p_, q_) for p_, q_ in items if args.only in p_]
    import concurrent.futures
    if args.every:
        items = [(p_, ALL) for p_, q_ in items]
    ex = concurrent.futures.ThreadPoolExecutor(max_workers=max(1, args.par))
    futs = [ex.submit(run_one, p_, q_, args.tier,
                      args.runs or (args.green_runs if p_ in expect_green else None), args.tests)
            for p_, q_ in items]
    for (patch, props), fut in zip(items, futs):
        r = fut.result()
        caught = [p for p, c in r.get('checks', {}).items() if c['exit'] == 1]
        broken = [p for p, c in r.get('checks', {}).items() if c['exit'] not in (0, 1)]
        status = 'CAUGHT' if caught else 'MISSED'
        if 'error' in r or broken:
            status = 'ERROR'
        if patch in expect_green:
            status = {'CAUGHT': 'FALSE-ALARM', 'MISSED': 'GREEN-OK'}.get(status, status)
        elif patch in no_expectation:
            status = status.lower()
        if status in ('MISSED', 'ERROR', 'FALSE-ALARM'):
            bad += 1
        results.append({'patch': os.path.relpath(patch, VERIF), 'status': status, 'expected': props, 'caught_by': caught,
                        'classes': {p: c['classes'][:6] for p, c in r.get('checks', {}).items() if c['classes']},
                        'baseline_tests_pass': r.get('baseline_tests_pass')})
        print('%-11s %s caught_by=%s harness_error=%s %s' % (status, os.path.relpath(patch, VERIF), caught, broken,
                                                          ('tests_pass=%s' % r.get('baseline_tests_pass')) if args.tests else ''))
        for p, c in r.get('checks', {}).items():
            if c['classes']:
                print('          %s: %s' % (p, ', '.join(c['classes'][:6])))
            if c['tail']:
                print('          %s tail: %s' % (p, c['tail']))
        if 'error' in r:
            print('          ' + r['error'])
        sys.stdout.flush()
    if args.json:
        if args.merge and os.path.exists(args.json):
            ran = {r['patch'] for r in results}
            old = [r for r in json.load(open(args.json)) if r['patch'] not in ran and
                   os.path.exists(os.path.join(VERIF, r['patch']))]
            results = sorted(old + results, key=lambda r: r['patch'])
        with open(args.json, 'w') as f:
            json.dump(results, f, indent=1, sort_keys=True)
    return 1 if bad else 0


if __name__ == '__main__':
    sys.exit(main())
