#!/venv/bin/python
"""
mkreport.py - regenerate the sensitivity tables of DESIGN.md (between the markers
<!-- SENSITIVITY:BEGIN --> and <!-- SENSITIVITY:END -->) from
  /verif/mutants/RESULTS.json   (written by `mutest.py --all --json ...`)
  /verif/seeded/*/meta.json     (written by seedin.py)
"""
import glob
import json
import os
import re

VERIF = os.path.dirname(os.path.dirname(os.path.abspath(__file__)))


def main():
    res = json.load(open(os.path.join(VERIF, 'mutants', 'RESULTS.json')))
    by = {r['patch']: r for r in res}
    out = []
    out.append('### 14.1 Seeded changes written by independent sub-agents\n')
    out.append('Each row is one directory under `/verif/seeded/` (patch.diff, demo.py, notes.md, meta.json).  '
               '"first run" is what the checks said when the change was first tried, before any strengthening; '
               '"now" is the last full regression (`sim/mutest.py --all`).  Classes are the violation classes reported.\n')
    out.append('| id | breaks | needs, in order to manifest | first run | now: caught by | classes (first few) |')
    out.append('|----|--------|------------------------------|-----------|----------------|---------------------|')
    n_seed = n_first = n_now = 0
    for mp in sorted(glob.glob(os.path.join(VERIF, 'seeded', '*', 'meta.json'))):
        m = json.load(open(mp))
        rel = os.path.relpath(os.path.join(os.path.dirname(mp), 'patch.diff'), VERIF)
        r = by.get(rel, {})
        first = m.get('first_run_caught_by')
        if first is None:
            first = m.get('caught_by', [])
        hit_first = [p for p in first if p in m['props']]
        now = r.get('caught_by', [])
        n_seed += 1
        n_first += 1 if hit_first else 0
        n_now += 1 if now else 0
        cls = []
        for p in now:
            cls += r.get('classes', {}).get(p, [])[:2]
        out.append('| %s | %s | %s | %s | %s | %s |' % (
            m['id'], ', '.join(m['props']), m.get('needs', '').replace('|', '/'),
            ('caught: ' + ', '.join(hit_first)) if hit_first else ('**missed**' + (' (seen by ' + ', '.join(first) + ')' if first else '')),
            ', '.join(now) if now else '**missed**', ' '.join('`%s`' % c.split(':', 1)[1] for c in cls[:4])))
    out.append('')
    out.append('Totals: %d seeded changes; %d caught by the check of (one of) the properties they break on the first run; '
               '%d caught now.\n' % (n_seed, n_first, n_now))
    out.append('### 14.2 Hand-written mutants (`/verif/mutants/`)\n')
    out.append('`cNN-*` must be caught by check CNN; `revert-Dk` re-introduces fixed defect Dk; `equiv-*` are '
               'behaviour-preserving rewrites run through **all seven** checks and must stay green; `undecided-*` '
               'change behaviour the property does not pin down (either outcome is acceptable).\n')
    out.append('| patch | expectation | result | caught by | classes (first few) |')
    out.append('|-------|-------------|--------|-----------|---------------------|')
    cnt = {}
    for r in res:
        if not r['patch'].startswith('mutants/'):
            continue
        name = os.path.basename(r['patch'])[:-6]
        exp = 'green' if name.startswith('equiv-') else 'either' if name.startswith('undecided-') else 'caught by ' + ','.join(r['expected'])
        cls = []
        for p in r['caught_by']:
            cls += r.get('classes', {}).get(p, [])[:2]
        cnt[r['status']] = cnt.get(r['status'], 0) + 1
        out.append('| %s | %s | %s | %s | %s |' % (name, exp, r['status'], ', '.join(r['caught_by']),
                                                  ' '.join('`%s`' % c.split(':', 1)[1] for c in cls[:3])))
    out.append('')
    out.append('Totals: ' + ', '.join('%s %d' % kv for kv in sorted(cnt.items())) + '.\n')
    out.append('### 14.3 Behaviour-preserving refactorings written by independent sub-agents (`/verif/refactors/`)\n')
    out.append('Each was asked to rewrite the anchored code substantially while keeping the property; all seven quick '
               'checks are run against each and must stay green.  "first run" lists the checks that were red when the '
               'refactoring was first tried; the triage of each red result is in its `meta.json`.\n')
    out.append('| id | first run | now | triage |')
    out.append('|----|-----------|-----|--------|')
    nref = ngreen = 0
    for mp in sorted(glob.glob(os.path.join(VERIF, 'refactors', '*', 'meta.json'))):
        m = json.load(open(mp))
        rel = os.path.relpath(os.path.join(os.path.dirname(mp), 'patch.diff'), VERIF)
        r = by.get(rel)
        now = ('red: ' + ', '.join(r['caught_by'])) if (r and r['caught_by']) else ('green' if r else
                                                                                 ('green' if not m.get('red') else 'red: ' + ', '.join(m['red'])))
        nref += 1
        ngreen += 1 if now == 'green' else 0
        out.append('| %s | %s | %s | %s |' % (m['id'], ('red: ' + ', '.join(m['first_run_red'])) if m.get('first_run_red') else 'green',
                                             now, (m.get('triage') or '').replace('|', '/')))
    out.append('')
    out.append('Totals: %d refactorings, %d green now.\n' % (nref, ngreen))
    text = '\n'.join(out)
    p = os.path.join(VERIF, 'DESIGN.md')
    s = open(p).read()
    a, b = '<!-- SENSITIVITY:BEGIN -->', '<!-- SENSITIVITY:END -->'
    if a not in s:
        s += '\n\n## 14. Which checks catch which changes (generated by sim/mkreport.py)\n\n' + a + '\n' + b + '\n'
    s = re.sub(re.escape(a) + '.*?' + re.escape(b), lambda m_: a + '\n' + text + '\n' + b, s, flags=re.S)
    open(p, 'w').write(s)
    print('DESIGN.md section 14 regenerated: %d seeded, %d mutants' % (n_seed, sum(cnt.values())))


if __name__ == '__main__':
    main()
