#!/venv/bin/python
"""mkmut.py NAME FILE OLD NEW [FILE OLD NEW ...] - write /verif/mutants/NAME.patch replacing OLD by NEW (exactly one
occurrence, or @N@OLD for the N-th, or @after:ANCHOR@OLD for the first after ANCHOR) in a scratch copy of /repo's FILE.  /repo itself is never touched."""
import os, subprocess, sys, tempfile, shutil
name = sys.argv[1]
trip = sys.argv[2:]
d = tempfile.mkdtemp(prefix='mkmut-')
try:
    os.makedirs(d + '/a'); os.makedirs(d + '/b')
    files = sorted(set(trip[0::3]))
    for f in files:
        for side in 'ab':
            os.makedirs(os.path.dirname(os.path.join(d, side, f)), exist_ok=True)
            shutil.copy(os.path.join('/repo', f), os.path.join(d, side, f))
    for i in range(0, len(trip), 3):
        f, old, new = trip[i:i + 3]
        old = old.encode().decode('unicode_escape'); new = new.encode().decode('unicode_escape')
        p = os.path.join(d, 'b', f)
        s = open(p).read()
        nth = None
        if old.startswith('@after:'):
            anchor, old = old[7:].split('@', 1)
            pos = s.index(anchor)
            at = s.index(old, pos)
            s = s[:at] + new + s[at + len(old):]
            open(p, 'w').write(s)
            continue
        if old.startswith('@'):
            nth, old = old[1:].split('@', 1); nth = int(nth)
        c = s.count(old)
        if nth is None:
            assert c == 1, '%r occurs %d times in %s' % (old, c, f)
            s = s.replace(old, new)
        else:
            assert c >= nth, '%r occurs only %d times' % (old, c)
            parts = s.split(old)
            s = old.join(parts[:nth]) + new + old.join(parts[nth:])
        open(p, 'w').write(s)
    out = subprocess.run(['diff', '-ru', 'a', 'b'], cwd=d, capture_output=True, text=True).stdout
    assert out, 'empty diff'
    open('/verif/mutants/%s.patch' % name, 'w').write(out)
    print('wrote', name, len(out.splitlines()), 'lines')
finally:
    shutil.rmtree(d)
