"""
common.py - shared vocabulary: method registry (DESIGN.md appendix A/B), argument
generators, world generators, fault-site discovery, single-fault enumeration,
value-class helpers.  Generators take an explicit random.Random; nothing here
touches global randomness.
"""

import copy

import run

INT32_EDGES = [0, 1, -1, 127, 128, -128, 255, 256, -256, 32767, 32768, -32768, 65535, 65536,
               8388607, 8388608, -8388608, 16777215, 16777216, -16777216, 0x01020304,
               -0x01020304, 0x7F000000, 2147483647, -2147483648, -2147483647, 0x00FF00FF,
               0x12345678, -0x12345678]

EXC_SERIAL = ['SerialException', 'SerialTimeoutException', 'PortNotOpenError']
EXC_ALL = EXC_SERIAL + ['OSError', 'IOError', 'RuntimeError', 'TimeoutError', 'BrokenPipeError', 'RecursionError',
                        'OSError:EINTR', 'OSError:EAGAIN', 'SerialException:EAGAIN',
                        'OSError()', 'SerialException()', 'RuntimeError()']

# request names for which command()/query() deliberately ignore a dropped link
IGNORED_NAMES = ('rb', 'r', 'bl')

WS = ['', '', '', ' ', '  ', '\t', '\r', '\n', ' \r\n', '\t ']

CMD_TEXTS = ['T3,1,0,0,0,0,0,0,3', 'L3,1,2,3,4,5,6,7,8,9,10,11,12', 'S2,0,4', 'SM,100,10,-10', 'SM,1,0,0', 'XM,50,3,4', 'EM,1,1', 'EM,0,0', 'SP,1,100', 'SP,0,0,3', 'TP',
             'SC,4,16000', 'SC,10,65535', 'CS', 'SR,60000', 'SR,0,1', 'PO,B,3,1', 'PD,B,3,0', 'SL,7,2',
             'SL,255,31', 'T3,1,0,0,0,0,0,0,3', 'HM,1000', 'HM,1000,0,500', 'CU,50,0', 'CU,1,1',
             'LM,100,5,0,200,-5,0', 'O,1,2', 'O,0', 'C,1,2,3,4', 'N', 'S', 'S,2,3', 'ND', 'NI', 'ES',
             'ST,abc', 'ST,' + 'x' * 60, 'ST,' + 'y' * 61, 'ST,' + 'z' * 62, 'ST,' + 'w' * 125, 'ST,50% done', 'ST,A%B', 'ST,100%', 'ST,%s%d', 'X', 'X,1', 'Z', 'RZ', 'RZ,1,2', 'RM,7', 'BX,1', 'ST,Studio  East', 'ST,a \t b', 'ST,x  y   z']
QRY_TEXTS = ['RQ', 'RQ,1', 'QL,3', 'QL,0', 'QL,31', 'QL', 'QS', 'QE', 'QC', 'QT', 'V', 'QG', 'PI,B,1', 'PI,B,0', 'QM', 'I',
             'MR', 'QP', 'QB', 'QU,4', 'QR', 'QN', 'A', 'Q', 'Q,1', 'I,1']
WRONG_LINES = ['OK', 'QT,abc', 'QG,3E', 'SM', 'QL,17', 'QS,5,-5', 'EBBv13_and_above EB Firmware Version 3.0.2',
               'V,EBB', 'XM', 'QE,16,16', 'CU', 'PI,1', '0', 'E', '3E', 'QT,', 'garbage', 'QC,0512,0300']


def failish(v):
    """None, False, or a tuple made only of None."""
    if v is None or v is False:
        return True
    if isinstance(v, dict) and 'tuple' in v:
        return all(x is None for x in v['tuple'])
    return False


def req_name(text):
    """The request name as the C05 statement defines it (one or two letters)."""
    t = text.strip()
    if len(t) == 1 or (len(t) > 1 and t[1] == ','):
        return t[0]
    return t[:2]


def decorate(rng, text):
    return rng.choice(WS) + text + rng.choice(WS)


def wrong_line(rng, name):
    """A well-formed line that does not start with `name` and has no Err:."""
    for _ in range(20):
        w = rng.choice(WRONG_LINES)
        if not w.startswith(name):
            return w
    return 'OK' if not 'OK'.startswith(name) else 'ZZ'


def near_miss(name):
    """A well-formed line for another command that shares as much as possible with `name` without
    beginning with it: same first character, different second character (two-character names), or the
    name in another letter case / after a blank (one-character names)."""
    if len(name) >= 2:
        second = 'Z' if name[1].upper() != 'Z' else 'Y'
        return name[0] + second + ',1'
    other = name.lower() if name != name.lower() else name.upper()
    if other != name:
        return other + ',1'
    return '_' + name


def pick_int(rng, lo, hi, edges=()):
    r = rng.random()
    cand = [e for e in edges if lo <= e <= hi]
    if cand and r < 0.5:
        return rng.choice(cand)
    if r < 0.6:
        return rng.choice([lo, hi])
    return rng.randint(lo, hi)


# ---------------------------------------------------------------------------
# EBB3-layer request methods (appendix A): name -> argument generator.
# Every generator returns (args, kwargs) made of JSON data.

def _a_command(rng):
    return [decorate(rng, rng.choice(CMD_TEXTS))], {}


def _a_query(rng):
    return [decorate(rng, rng.choice(QRY_TEXTS))], {}


def _none(rng):
    return [], {}


def _a_nick(rng):
    base = rng.choice(['Bob', 'axi 7', 'NextDraw_01', 'x', 'abcdefghijklmnop', 'A', 'Zed9', 'Studio  East', 'a \t b',
                       'Errol', 'Err', 'OK', 'QT', '50% done', '100%', '%s'])
    return [decorate(rng, base)], {}


def _a_var_write(rng):
    return [pick_int(rng, 0, 255, [0, 1, 127, 128, 255]), pick_int(rng, 0, 31, [0, 1, 28, 31])], {}


def _a_var_read(rng):
    return [pick_int(rng, 0, 31, [0, 1, 28, 31])], {}


def _a_w32(rng):
    v = rng.choice(INT32_EDGES) if rng.random() < 0.6 else rng.randint(-2 ** 31, 2 ** 31 - 1)
    return [v, pick_int(rng, 0, 28, [0, 1, 27, 28])], {}


def _a_r32(rng):
    return [pick_int(rng, 0, 28, [0, 1, 27, 28])], {}


def _a_pause(rng):
    return [pick_int(rng, -5, 4000, [-1, 0, 1, 2, 749, 750, 751, 1499, 1500, 1501, 2250, 2251])], {}


def _a_xy(rng):
    return [pick_int(rng, -100000, 100000, [0, 1, -1]), pick_int(rng, -100000, 100000, [0, 1, -1]),
            pick_int(rng, 1, 100000, [1, 2, 750])], {}


def _opt_pos(rng):
    r = rng.random()
    if r < 0.25:
        return None
    return pick_int(rng, -50000, 50000, [0, 0, 1, -1])


def _a_abs(rng):
    rate = pick_int(rng, 2, 25000, [2, 1000])
    shape = rng.randrange(5)
    if shape == 0:
        return [rate], {}
    if shape == 1:
        return [rate, _opt_pos(rng), _opt_pos(rng)], {}
    if shape == 2:
        return [rate, pick_int(rng, -50000, 50000, [0])], {}
    if shape == 3:
        return [rate], {'position1': _opt_pos(rng), 'position2': _opt_pos(rng)}
    return [rate, pick_int(rng, -5, 5, [0]), pick_int(rng, -5, 5, [0])], {}


def _a_men(rng):
    return [rng.randint(-2, 8), rng.randint(-2, 8)], {}


def _a_pen(rng):
    delay = pick_int(rng, 0, 65535, [0, 1, 100])
    r = rng.random()
    if r < 0.3:
        return [delay], {}
    if r < 0.4:
        return [delay, None], {}
    if r < 0.5:
        return [delay], {'pin': pick_int(rng, 0, 7, [0, 0, 1])}
    return [delay, pick_int(rng, 0, 7, [0, 0, 1, 2])], {}


def _a_dioc(rng):
    return [rng.randint(0, 7), rng.randint(0, 1), rng.randint(0, 1)], {}


def _a_dios(rng):
    return [rng.randint(0, 7), rng.randint(0, 1)], {}


def _a_dior(rng):
    return [rng.randint(0, 7)], {}


def _a_u16(rng):
    return [pick_int(rng, 0, 65535, [0, 1, 65535])], {}


def _a_srv(rng):
    ms = pick_int(rng, 0, 4000000, [0, 1, 60000])
    r = rng.random()
    if r < 0.35:
        return [ms], {}
    if r < 0.45:
        return [ms, None], {}
    if r < 0.55:
        return [ms], {'state': rng.randint(0, 1)}
    return [ms, rng.choice([0, 0, 1])], {}


def _a_volt(rng):
    r = rng.random()
    if r < 0.5:
        return [], {}
    if r < 0.6:
        return [None], {}
    return [pick_int(rng, 0, 1023, [0, 250, 300, 301])], {}


E3_METHODS = {
    'command': _a_command, 'query': _a_query, 'query_statusbyte': _none,
    'reboot': _none, 'bootload': _none, 'query_nickname': _none, 'write_nickname': _a_nick,
    'var_write': _a_var_write, 'var_read': _a_var_read,
    'var_write_int32': _a_w32, 'var_read_int32': _a_r32,
    'timed_pause': _a_pause, 'xy_move': _a_xy, 'abs_move': _a_abs,
    'motors_disable': _none, 'motors_enable': _a_men, 'motors_query_enabled': _none,
    'query_steps': _none, 'clear_steps': _none, 'clear_accumulators': _none,
    'pen_lower': _a_pen, 'pen_raise': _a_pen,
    'dio_b_config': _a_dioc, 'dio_b_set': _a_dios, 'dio_b_read': _a_dior,
    'pen_pos_down': _a_u16, 'pen_pos_up': _a_u16, 'pen_rate_down': _a_u16, 'pen_rate_up': _a_u16,
    'servo_timeout': _a_srv, 'query_voltage': _a_volt, 'query_current': _none,
}
E3_NAMES = list(E3_METHODS)
# methods that always end the connection (port closed by the method itself)
E3_CLOSING = ('reboot', 'bootload')

# canonical argument shapes used by the complete sweeps (several per method where the
# argument shape changes the request sequence)
E3_CANON = {
    'command': [[['SM,100,10,-10'], {}], [[' TP\r'], {}], [['O,1,2'], {}], [['R'], {}], [['RB'], {}], [['BL'], {}]],
    'query': [[['QL,3'], {}], [[' QS '], {}], [['V'], {}], [['I,1'], {}], [['R'], {}]],
    'query_statusbyte': [[[], {}]], 'reboot': [[[], {}]], 'bootload': [[[], {}]],
    'query_nickname': [[[], {}]], 'write_nickname': [[[' Bob '], {}], [[''], {}]],
    'var_write': [[[200, 5], {}]], 'var_read': [[[5], {}]],
    'var_write_int32': [[[-123456789, 8], {}]], 'var_read_int32': [[[8], {}]],
    'timed_pause': [[[1600], {}], [[1], {}]],
    'xy_move': [[[10, -20, 30], {}], [[1, 2, 60000], {}]],
    'abs_move': [[[1000], {}], [[1000, 0, 500], {}]],
    'motors_disable': [[[], {}]],
    'motors_enable': [[[1, 1], {}], [[0, 2], {}], [[3, 0], {}], [[0, 0], {}]],
    'motors_query_enabled': [[[], {}]], 'query_steps': [[[], {}]],
    'clear_steps': [[[], {}]], 'clear_accumulators': [[[], {}]],
    'pen_lower': [[[100], {}], [[100, 2], {}]], 'pen_raise': [[[100], {}], [[100, 2], {}]],
    'dio_b_config': [[[3, 1, 0], {}]], 'dio_b_set': [[[3, 1], {}]], 'dio_b_read': [[[3], {}]],
    'pen_pos_down': [[[12000], {}]], 'pen_pos_up': [[[20000], {}]],
    'pen_rate_down': [[[400], {}]], 'pen_rate_up': [[[400], {}]],
    'servo_timeout': [[[60000], {}], [[60000, 1], {}]],
    'query_voltage': [[[], {}], [[280], {}]], 'query_current': [[[], {}]],
}


def introspect_unregistered():
    """Public callables on EBBMotionWrap that the registry does not know."""
    from plotink import ebb3_motion
    known = set(E3_NAMES) | {'connect', 'disconnect', 'find_first', 'record_error', 'parse_version',
                             'min_version'}
    out = []
    for n in dir(ebb3_motion.EBBMotionWrap):
        if n.startswith('_'):
            continue
        if callable(getattr(ebb3_motion.EBBMotionWrap, n)) and n not in known:
            out.append(n)
    return sorted(out)


# ---------------------------------------------------------------------------
# worlds

PORT_NAMES = {'mac': ['/dev/cu.usbmodem1411', '/dev/cu.usbmodem14201', '/dev/cu.usbmodem621', '/dev/cu.usbmodem3',
                      '/dev/cu.usbmodem1421', '/dev/cu.usbmodemFA131'],
              'linux': ['/dev/ttyACM0', '/dev/ttyACM1', '/dev/ttyACM2', '/dev/ttyACM3', '/dev/ttyACM4', '/dev/ttyACM5'],
              'win': ['COM3', 'COM4', 'COM5', 'COM7', 'COM9', 'COM12'],
              'py27': ['COM3', 'COM4', 'COM5', 'COM7', 'COM9', 'COM12']}


def ebb_spec(port, fw=(3, 0, 2), nick='', style='linux', **kw):
    d = {'port': port, 'kind': 'ebb', 'fw': list(fw), 'nick': nick, 'style': style}
    d.update(kw)
    return d


def distinct_ram(rng):
    vals = rng.sample(range(1, 256), 32)
    return vals


def simple_world(rng, fw=(3, 0, 2), style=None, unique=True):
    style = style or rng.choice(['mac', 'linux', 'win'])
    spec = ebb_spec(PORT_NAMES[style][0], fw=fw, nick=rng.choice(['', 'Bob', 'Axi_1', 'Errol', 'OK', ',lead', 'QTip', 'Tom']), style=style)
    if unique:
        spec['prior'] = {'ram': distinct_ram(rng), 'steps': [rng.randint(-9999, 9999), rng.randint(-9999, 9999)]}
        spec['voltage'] = rng.choice([0, 100, 249, 250, 251, 300, 1023])
        spec['current'] = rng.randint(0, 1023)
        spec['status'] = rng.randint(0, 255)
    return {'boards': [spec]}


# ---------------------------------------------------------------------------
# scenario helpers

def mk_ops(ops):
    """Give every op a stable id (position at generation time)."""
    for i, op in enumerate(ops):
        op['id'] = i
    return ops


def call(obj, m, a=None, k=None):
    d = {'op': 'call', 'obj': obj, 'm': m, 'a': list(a or [])}
    if k:
        d['k'] = dict(k)
    return d


def lcall(f, a=None, k=None, store=None):
    d = {'op': 'lcall', 'f': f, 'a': list(a or [])}
    if k:
        d['k'] = dict(k)
    if store is not None:
        d['store'] = store
    return d


def discover(scn):
    """Fault-free dry run: {op id: record} (I/O kinds, requests)."""
    dry = copy.copy(scn)
    dry['faults'] = {}
    h = run.execute(dry)
    return {r['id']: r for r in h.ops}, h


def discover_with(scn, faults):
    """Dry run under a given (delay-only) fault plan: {op id: record}."""
    dry = copy.copy(scn)
    dry['faults'] = faults
    h = run.execute(dry)
    return {r['id']: r for r in h.ops}


def pair_faults(scn, oid, delays=(1, 2, 25), exc_classes=('SerialException', 'OSError'), budget=25):
    """Two cooperating faults inside one call: reply line(s) of request r preceded by d empty reads
    (inside the conforming budget), and an exception or unplug at any I/O event of the call as it then
    unfolds (i.e. also inside the retry loop).  Yields faults-dicts."""
    recs, _ = discover(scn)
    rec0 = recs[oid]
    for r, req in enumerate(rec0['requests'], start=1):
        nl = max(1, len(req['lines']))
        for d in delays:
            for j in range(nl):
                ds = [0] * nl
                ds[j] = d
                plan = {'reply': [{'at': [oid, r], 'delay': ds}]}
                rec = discover_with(scn, plan)[oid]
                n = len(rec['io'])
                base_n = len(rec0['io'])
                # positions: everything for short delays; for long delays the first, middle and last retries
                if n - base_n <= 4:
                    ks = range(1, n + 1)
                else:
                    ks = sorted(set(list(range(1, base_n + 1)) + [base_n + 1, base_n + (n - base_n) // 2, n - 2, n - 1, n]))
                for k in ks:
                    if not 1 <= k <= n:
                        continue
                    for exc in exc_classes:
                        yield {'reply': plan['reply'], 'io': [{'at': [oid, k], 'kind': 'raise', 'exc': exc}]}
                    yield {'reply': plan['reply'], 'io': [{'at': [oid, k], 'kind': 'unplug'}]}


def raise_pairs(rec, first=('SerialException', 'OSError'), second=('OSError', 'SerialException', 'RuntimeError')):
    """Two exceptions in one call: at I/O event k1, and at a later I/O event k2 - which, on code that stops
    after the first one, never happens (then the second directive is inert).  k2 runs two events past the
    fault-free length, so that clean-up calls made only on the failure path (a close, a flush) are hit too."""
    oid = rec['id']
    n = len(rec['io'])
    for k1 in range(1, n + 1):
        for k2 in range(k1 + 1, min(n, k1 + 3) + 3):
            for e1 in first[:1] if k2 > k1 + 2 else first:
                for e2 in second:
                    yield {'io': [{'at': [oid, k1], 'kind': 'raise', 'exc': e1},
                                  {'at': [oid, k2], 'kind': 'raise', 'exc': e2}]}


def single_faults(rec, exc_classes=EXC_ALL, reply_kinds=None, names=None):
    """Enumerate every single-fault placement inside the op whose dry-run record is `rec`.
    Yields (tag, faults-dict)."""
    oid = rec['id']
    for k, kind in enumerate(rec['io'], start=1):
        for exc in exc_classes:
            yield ('raise_on_%s:%s' % (kind, exc), k), {'io': [{'at': [oid, k], 'kind': 'raise', 'exc': exc}]}
        yield ('unplug@%s' % kind, k), {'io': [{'at': [oid, k], 'kind': 'unplug'}]}
    kinds = reply_kinds or ['drop', 'drop_request', 'err_bang', 'err_named', 'stale_instead', 'stale_front',
                            'stale_near', 'stale_case', 'late26', 'd25', 'd1']
    for r, req in enumerate(rec['requests'], start=1):
        name = req_name(req['text'])
        for kd in kinds:
            yield (kd, r), {'reply': [reply_fault(oid, r, kd, name)]}


def reply_fault(oid, r, kd, name, n_lines=2):
    at = [oid, r]
    if kd == 'drop':
        return {'at': at, 'drop': 'all'}
    if kd == 'drop_request':
        return {'at': at, 'drop_request': True}
    if kd == 'err_bang':
        return {'at': at, 'err': 'bang'}
    if kd == 'err_named':
        return {'at': at, 'err': 'named'}
    if kd == 'stale_instead':
        w = 'OK' if not 'OK'.startswith(name) else 'QT,abc'
        return {'at': at, 'stale': {'text': w + '\n', 'instead': True}}
    if kd == 'stale_hex':
        w = 'QT,abc' if not 'QT,abc'.startswith(name) else 'OK'
        return {'at': at, 'stale': {'text': w + '\n', 'instead': True}}
    if kd == 'stale_front':
        w = 'QT,abc' if not 'QT,abc'.startswith(name) else 'OK'
        return {'at': at, 'stale': {'text': w + '\n'}}
    if kd == 'glued':
        # a reply that begins with the request's name and continues without a separating comma, the data
        # starting with a character of the name itself (QTTom, VV3, QLL,5)
        return {'at': at, 'stale': {'text': name + name[0] + 'om,2\n', 'instead': True}}
    if kd == 'glued2':
        return {'at': at, 'stale': {'text': name + name[-1] + name[0] + ',,7\n', 'instead': True}}
    if kd == 'stale_case':
        # the request's name in the other letter case: a different name
        other = name.swapcase()
        if other == name:
            other = near_miss(name)
        return {'at': at, 'stale': {'text': other + ',0394,0300\n', 'instead': True}}
    if kd == 'stale_near':
        return {'at': at, 'stale': {'text': near_miss(name) + '\n', 'instead': True}}
    if kd == 'late26':
        return {'at': at, 'delay': [26]}
    if kd == 'd25':
        return {'at': at, 'delay': [25]}
    if kd == 'd1':
        return {'at': at, 'delay': [1]}
    raise ValueError(kd)


def with_faults(scn, faults):
    s = dict(scn)
    s['faults'] = faults
    return s


def trace_requests(rec):
    """Split an op's writes into CR-terminated request texts per port."""
    out = {}
    for port, wire in rec['wire'].items():
        parts = wire.split('\r')
        tail = parts.pop()
        out[port] = (parts, tail)
    return out


class V:
    """A violation."""

    def __init__(self, prop, check, method, op_id=None, detail=''):
        self.prop = prop
        self.check = check
        self.method = method
        self.op_id = op_id
        self.detail = detail

    @property
    def cls(self):
        return '%s:%s:%s' % (self.prop, self.check, self.method)

    def as_dict(self):
        return {'class': self.cls, 'op_id': self.op_id, 'detail': self.detail}


def op_method(op):
    if op['op'] == 'call':
        return op['m']
    if op['op'] == 'lcall':
        return op['f'].split('.')[1]
    return op['op']
