"""
reach.py - line-reach probe: which lines of the four serial modules did a sample of
scenarios execute?  (sys.settrace; used on a sample only, never in the deciding runs.)

The result goes into the evidence file so that an anchored mechanism which no run
reached shows up as a number, not as an assumption.
"""

import os
import sys
import types

import run

MODS = ('ebb_serial', 'ebb_motion', 'ebb3_serial', 'ebb3_motion')


def _functions(code, qual, out):
    """Collect code objects of functions (not module / class bodies, which run at import)."""
    for c in code.co_consts:
        if isinstance(c, types.CodeType):
            name = c.co_name
            q = (qual + '.' + name) if qual else name
            # class bodies: their own lines run at import time; descend only
            is_class_body = any(isinstance(k, str) and k == '__qualname__' for k in c.co_names) and \
                '__module__' in c.co_names
            if not is_class_body and not name.startswith('<'):
                lines = set(ln for _, _, ln in c.co_lines() if ln is not None)
                lines.discard(c.co_firstlineno)
                out[q] = (c.co_firstlineno, lines)
            _functions(c, q if not name.startswith('<') else qual, out)


def executable_lines():
    """{module: {function qualname: (first line, set of line numbers)}}"""
    res = {}
    for m in MODS:
        path = run.MODULES[m].__file__
        src = open(path).read()
        code = compile(src, path, 'exec')
        fns = {}
        _functions(code, '', fns)
        res[m] = (path, fns)
    return res


def trace_sample(scenarios):
    """Execute the scenarios under a line tracer.  Returns {module: set(lines hit)}."""
    files = {os.path.realpath(run.MODULES[m].__file__): m for m in MODS}
    hit = {m: set() for m in MODS}
    cache = {}

    def local(frame, event, arg):
        if event == 'line':
            hit[cache[frame.f_code.co_filename]].add(frame.f_lineno)
        return local

    def tracer(frame, event, arg):
        fn = frame.f_code.co_filename
        m = cache.get(fn)
        if m is None:
            m = files.get(os.path.realpath(fn), False)
            cache[fn] = m
        if m:
            return local
        return None

    old = sys.gettrace()
    sys.settrace(tracer)
    try:
        for scn in scenarios:
            run.execute(scn)
    finally:
        sys.settrace(old)
    return hit


def report(scenarios, focus=None):
    """Summary for the evidence file.  `focus` = {module: [function names]} the property is
    anchored in (reported per function); everything else is reported per module."""
    ex = executable_lines()
    hit = trace_sample(scenarios)
    out = {'scenarios_traced': len(scenarios), 'modules': {}, 'functions': {}, 'unreached': {}}
    for m in MODS:
        path, fns = ex[m]
        tot = set()
        for q, (first, lines) in fns.items():
            tot |= lines
        h = hit[m] & tot
        out['modules'][m] = {'function_lines': len(tot), 'reached': len(h)}
        for q, (first, lines) in sorted(fns.items(), key=lambda kv: kv[1][0]):
            if not lines:
                continue
            if focus is not None:
                if m not in focus:
                    continue
                want = focus[m]
                if want is not None and q.split('.')[-1] not in want and q not in want:
                    continue
            got = lines & hit[m]
            out['functions']['%s.%s' % (m, q)] = [len(got), len(lines)]
            miss = sorted(lines - got)
            if miss:
                out['unreached']['%s.%s' % (m, q)] = miss[:40]
    return out
