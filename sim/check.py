#!/venv/bin/python
"""
check.py - command line driver.

  check.py <ID> [--tier quick|thorough] [--seed N] [--jobs N] [--replay PATH]

Exit 0: property held on everything explored (KNOWN-FINDING lines may be printed).
Exit 1: a line `VIOLATION property=<id> replay=<path>` was printed.
Exit 2: harness error (never a VIOLATION line, never 0).
"""

import argparse
import collections
import concurrent.futures
import faulthandler
import hashlib
import importlib
import json
import multiprocessing
import os
import random
import signal
import subprocess
import sys
import time
import traceback

HERE = os.path.dirname(os.path.abspath(__file__))
VERIF = os.path.dirname(HERE)
sys.path.insert(0, HERE)

EXIT_OK, EXIT_VIOLATION, EXIT_HARNESS = 0, 1, 2
WALL_PER_SCENARIO = 20          # seconds; watchdog for CPU-bound hangs inside the code under test


def reexec_with_hashseed():
    if os.environ.get('PYTHONHASHSEED') is None:
        env = dict(os.environ)
        env['PYTHONHASHSEED'] = '0'
        env['PYTHONDONTWRITEBYTECODE'] = '1'
        os.execve(sys.executable, [sys.executable, '-B'] + sys.argv, env)


def load_prop(pid):
    return importlib.import_module('props.' + pid.lower())


class Watchdog(BaseException):
    pass


def _alarm(signum, frame):
    raise Watchdog()


def run_scenario(mod, scn):
    """Execute and judge one scenario.  Returns (violations, hist)."""
    import run
    from common import V
    signal.signal(signal.SIGALRM, _alarm)
    signal.alarm(WALL_PER_SCENARIO)
    try:
        hist = run.execute(scn)
    except Watchdog:
        signal.alarm(0)
        return [V(mod.PROP, 'hang', 'wall_clock_watchdog', None,
                  'scenario did not finish within %d s of real time' % WALL_PER_SCENARIO)], None
    finally:
        signal.alarm(0)
    viols = mod.check(scn, hist)
    return viols, hist


def scenario_rng(seed, pid, idx):
    return random.Random('%d:%s:%d' % (seed, pid, idx))


def summarise(scn, hist, viols):
    """A compact, readable rendering of one explored case for the evidence file."""
    ops = []
    for r in hist.ops[:60]:
        op = r['op']
        if op['op'] == 'call':
            s = 'obj%d.%s(%s)' % (op['obj'], op['m'], ', '.join(json.dumps(a) for a in op.get('a', [])) +
                                  (', **' + json.dumps(op['k']) if op.get('k') else ''))
        elif op['op'] == 'lcall':
            s = '%s(%s)' % (op['f'], ', '.join(json.dumps(a) for a in op.get('a', [])))
        else:
            s = json.dumps({k: v for k, v in op.items() if k != 'id'})
        ops.append({'id': r['id'], 'call': s, 'ret': r['ret'], 'exc': r['exc'],
                    'wire': r['wire'], 'reads': len(r['reads']),
                    'empty_reads': sum(1 for x in r['reads'] if x == ''),
                    'faults_fired': r['faults_fired']})
    return {'world': scn['world'], 'faults': scn.get('faults', {}), 'ops': ops,
            'virtual_seconds': hist.vtime_us / 1e6, 'digest': hist.digest,
            'violations': [v.as_dict() for v in viols]}


def new_stats():
    return {'n': 0, 'distinct': set(), 'nontrivial': 0, 'fired': collections.Counter(),
            'vtime_us': 0, 'io': 0, 'empty_reads': 0, 'ops': 0, 'viol': {}, 'samples': [],
            'extra': collections.Counter(), 'sets': collections.defaultdict(set), 'errors': []}


def account(mod, st, scn, hist, viols, tag):
    st['n'] += 1
    if hist is not None:
        for k, v in hist.fired.items():
            st['fired'][k] += v
        st['vtime_us'] += hist.vtime_us
        st['io'] += hist.total_io
        st['empty_reads'] += hist.empty_reads
        st['ops'] += len(hist.ops)
        abstract_transitions(hist, st)
        keys = mod.classify(scn, hist)
        if keys:
            st['nontrivial'] += 1
            for k in keys:
                st['distinct'].add(k)
        if hasattr(mod, 'observe'):
            mod.observe(scn, hist, st)
        if len(st['samples']) < 2 and (keys or st['n'] == 1):
            st['samples'].append(summarise(scn, hist, viols))
    for v in viols:
        ent = st['viol'].setdefault(v.cls, {'count': 0, 'first': None})
        ent['count'] += 1
        if ent['first'] is None:
            ent['first'] = {'tag': tag, 'scn': scn, 'detail': v.detail, 'op_id': v.op_id}


def _fault_of(rec):
    if rec['faults_fired']:
        f = rec['faults_fired'][0]
        return '%s_%s@%d' % (f[0], f[1], min(f[3], 4))
    for q in rec['requests']:
        if q.get('plan'):
            return ','.join(sorted(k for k in q['plan'] if k != 'at'))
    return '-'


def _ret_class(v):
    if v is None:
        return 'None'
    if isinstance(v, bool):
        return str(v)
    if isinstance(v, (int, str)):
        return type(v).__name__
    if isinstance(v, dict):
        return next(iter(v))
    return 'other'


def abstract_transitions(hist, st):
    """Reach measure: distinct abstract transitions (state before, call, first fault, outcome, state after).
    Object state = (has port, port open, error latched); legacy calls have no host-side state."""
    tr, ss = st['sets']['abstract_transitions'], st['sets']['abstract_states']
    for rec in hist.ops:
        op = rec['op']
        if op['op'] == 'call' and rec.get('before') and rec.get('after'):
            b, a = rec['before'], rec['after']
            sb = '%d%d%d' % (b['port'] is not None, b['port_open'], b['err'] is not None)
            sa = '%d%d%d' % (a['port'] is not None, a['port_open'], a['err'] is not None)
            ss.add(sb)
            ss.add(sa)
            tr.add('%s|%s|%s|%s|%s|%s' % (sb, op['m'], _fault_of(rec), _ret_class(rec['ret']), rec['exc'] or '-', sa))
        elif op['op'] == 'lcall':
            tr.add('L|%s|%s|%s|%s' % (op['f'], _fault_of(rec), _ret_class(rec['ret']), rec['exc'] or '-'))


def work(job):
    """Worker: one chunk of sweep cells or random indices."""
    try:
        faulthandler.dump_traceback_later(job.get('chunk_timeout', 1500), exit=True)
        mod = load_prop(job['pid'])
        st = new_stats()
        if job['mode'] == 'sweep':
            for cell in job['cells']:
                for j, scn in enumerate(mod.sweep_expand(cell)):
                    viols, hist = run_scenario(mod, scn)
                    account(mod, st, scn, hist, viols, ['sweep', cell, j])
                    st['extra']['sweep_scenarios'] += 1
                st['extra']['sweep_cells'] += 1
        else:
            for idx in range(job['start'], job['end']):
                scn = mod.gen(scenario_rng(job['seed'], job['pid'], idx), idx)
                scn['seed'] = job['seed']
                scn['index'] = idx
                viols, hist = run_scenario(mod, scn)
                account(mod, st, scn, hist, viols, ['random', job['seed'], idx])
        faulthandler.cancel_dump_traceback_later()
        st['distinct'] = sorted(st['distinct'])
        st['sets'] = {k: sorted(v) for k, v in st['sets'].items()}
        return st
    except BaseException:
        return {'fatal': traceback.format_exc()}


def merge(total, st):
    total['n'] += st['n']
    total['distinct'].update(st['distinct'])
    total['nontrivial'] += st['nontrivial']
    total['fired'].update(st['fired'])
    for k in ('vtime_us', 'io', 'empty_reads', 'ops'):
        total[k] += st[k]
    total['extra'].update(st['extra'])
    for k, v in st['sets'].items():
        total['sets'][k].update(v)
    for cls, ent in st['viol'].items():
        t = total['viol'].setdefault(cls, {'count': 0, 'first': None})
        t['count'] += ent['count']
        if t['first'] is None:
            t['first'] = ent['first']
    if len(total['samples']) < 4:
        total['samples'].extend(st['samples'][:4 - len(total['samples'])])


# ---------------------------------------------------------------------------
# known findings

def load_known():
    known, fixed = {}, []
    path = os.path.join(VERIF, 'KNOWN_FINDINGS.txt')
    if os.path.exists(path):
        for line in open(path):
            line = line.strip()
            if line.startswith('known:'):
                parts = line.split()
                pid = [p for p in parts if p.startswith('property=')][0].split('=', 1)[1]
                sig = [p for p in parts if p.startswith('sig=')][0].split('=', 1)[1]
                known[(pid, sig)] = line.split(sig, 1)[1].strip()
            elif line.startswith('fixed:'):
                fixed.append(line)
    return known, fixed


# ---------------------------------------------------------------------------
# determinism self-test

def digests_for(mod, pid, seed, indices):
    out = []
    for idx in indices:
        scn = mod.gen(scenario_rng(seed, pid, idx), idx)
        viols, hist = run_scenario(mod, scn)
        h = hashlib.sha256()
        h.update(json.dumps(scn, sort_keys=True).encode())
        h.update((hist.digest if hist else 'nohist').encode())
        h.update(json.dumps(sorted(v.cls for v in viols)).encode())
        out.append(h.hexdigest())
    return out


def selftest_determinism(mod, pid, seed, n):
    indices = list(range(0, n))
    a = digests_for(mod, pid, seed, indices)
    b = digests_for(mod, pid, seed, indices)
    if a != b:
        return False, 'in-process repeat differs'
    env = dict(os.environ)
    env['PYTHONHASHSEED'] = '4242'
    p = subprocess.run([sys.executable, '-B', os.path.abspath(__file__), pid, '--digests', str(n),
                        '--seed', str(seed)], env=env, capture_output=True, text=True, timeout=600)
    if p.returncode != 0:
        return False, 'fresh interpreter failed: ' + p.stderr[-400:]
    c = json.loads(p.stdout.strip().splitlines()[-1])
    if c != a:
        return False, 'fresh interpreter with another PYTHONHASHSEED differs'
    return True, '%d scenarios x (2 in-process + 1 fresh interpreter, other hash seed): identical digests' % n


# ---------------------------------------------------------------------------

def main():
    ap = argparse.ArgumentParser()
    ap.add_argument('pid')
    ap.add_argument('--tier', default=os.environ.get('VERIF_TIER', 'quick'), choices=['quick', 'thorough'])
    ap.add_argument('--seed', type=int, default=int(os.environ.get('VERIF_SEED', '0') or 0))
    ap.add_argument('--jobs', type=int, default=int(os.environ.get('VERIF_JOBS', '0') or 0))
    ap.add_argument('--replay')
    ap.add_argument('--digests', type=int)
    ap.add_argument('--digest-range', help='A:B - print digests of random indices A..B-1 (determinism proofs)')
    ap.add_argument('--digest-sweep', help='A:B - print digests of all scenarios of sweep cells A..B-1')
    ap.add_argument('--runs', type=int, help='override the number of random runs')
    ap.add_argument('--no-evidence', action='store_true')
    ap.add_argument('--no-minimise', action='store_true')
    ap.add_argument('--wall', type=int, help='wall-clock cap in seconds for the random phase')
    args = ap.parse_args()
    pid = args.pid.upper()

    if args.digests is not None:
        mod = load_prop(pid)
        print(json.dumps(digests_for(mod, pid, args.seed, list(range(args.digests)))))
        return EXIT_OK

    if args.digest_range is not None:
        a, b = (int(x) for x in args.digest_range.split(':'))
        mod = load_prop(pid)
        print(json.dumps(digests_for(mod, pid, args.seed, list(range(a, b)))))
        return EXIT_OK
    if args.digest_sweep is not None:
        a, b = (int(x) for x in args.digest_sweep.split(':'))
        mod = load_prop(pid)
        out = []
        for cell in mod.sweep_cells(args.tier)[a:b]:
            for scn in mod.sweep_expand(cell):
                viols, hist = run_scenario(mod, scn)
                h = hashlib.sha256()
                h.update(json.dumps(scn, sort_keys=True).encode())
                h.update((hist.digest if hist else 'nohist').encode())
                h.update(json.dumps(sorted(v.cls for v in viols)).encode())
                out.append(h.hexdigest())
        print(json.dumps(out))
        return EXIT_OK

    reexec_with_hashseed()
    t0 = time.time()
    mod = load_prop(pid)
    known, fixed = load_known()

    if args.replay:
        return replay(mod, pid, args.replay, known)

    jobs = args.jobs or min(16, os.cpu_count() or 1)
    n_random = args.runs if args.runs is not None else (mod.N_QUICK if args.tier == 'quick' else mod.N_THOROUGH)
    wall_cap = args.wall or (mod.WALL_QUICK if args.tier == 'quick' else mod.WALL_THOROUGH)

    # determinism self-test first: a harness that does not replay is not believed
    ok, det_msg = selftest_determinism(mod, pid, args.seed, 12 if args.tier == 'quick' else 60)
    if not ok:
        print('HARNESS-ERROR determinism self-test failed: ' + det_msg)
        return EXIT_HARNESS

    total = new_stats()
    joblist = []
    cells = mod.sweep_cells(args.tier) if hasattr(mod, 'sweep_cells') else []
    n_cells = len(cells)
    per = max(1, (len(cells) + jobs * 4 - 1) // (jobs * 4)) if cells else 1
    for i in range(0, len(cells), per):
        joblist.append({'pid': pid, 'mode': 'sweep', 'cells': cells[i:i + per]})
    chunk = max(50, min(2000, n_random // (jobs * 8) or 1))
    for s in range(0, n_random, chunk):
        joblist.append({'pid': pid, 'mode': 'random', 'seed': args.seed, 'start': s,
                        'end': min(n_random, s + chunk)})
    ctx = multiprocessing.get_context('fork')
    fatal = None
    stopped_early = False
    done_random = 0
    with concurrent.futures.ProcessPoolExecutor(max_workers=jobs, mp_context=ctx) as ex:
        pending = collections.deque()
        it = iter(joblist)
        results = []

        def submit_next():
            nonlocal stopped_early
            try:
                j = next(it)
            except StopIteration:
                return False
            if j['mode'] == 'random' and time.time() - t0 > wall_cap:
                stopped_early = True
                return False
            pending.append((j, ex.submit(work, j)))
            return True

        for _ in range(jobs * 2):
            if not submit_next():
                break
        while pending:
            j, fut = pending.popleft()
            try:
                st = fut.result(timeout=1800)
            except Exception as e:      # worker died / timed out
                fatal = 'worker failed: %r' % (e,)
                break
            if 'fatal' in st:
                fatal = st['fatal']
                break
            st['distinct'] = set(st['distinct'])
            merge(total, st)
            if j['mode'] == 'random':
                done_random += j['end'] - j['start']
            submit_next()
        if fatal:
            for _, fut in pending:
                fut.cancel()
    if fatal:
        print('HARNESS-ERROR ' + fatal)
        return EXIT_HARNESS

    # ---- violations: minimise, verify replay in a fresh interpreter, report
    import minimise
    exit_code = EXIT_OK
    reported = []
    replay_dir = os.environ.get('VERIF_REPLAY_DIR') or os.path.join(VERIF, 'replays')
    os.makedirs(replay_dir, exist_ok=True)
    for cls in sorted(total['viol']):
        ent = total['viol'][cls]
        first = ent['first']
        sig = cls.split(':', 1)[1]
        scn = first['scn']
        if not args.no_minimise:
            try:
                scn = minimise.minimise(mod, scn, cls)
            except Exception:
                print('HARNESS-ERROR minimiser failed on %s:\n%s' % (cls, traceback.format_exc()))
                return EXIT_HARNESS
        scn = dict(scn)
        scn['prop'] = pid
        scn['violation_class'] = cls
        scn['origin'] = first['tag']          # ['random', seed, index] or ['sweep', cell, ordinal]
        scn['found_with'] = {'tier': args.tier, 'seed': args.seed, 'detail': first['detail']}
        name = '%s-%s.json' % (pid, hashlib.sha1(cls.encode()).hexdigest()[:10])
        path = os.path.join(replay_dir, name)
        with open(path, 'w') as f:
            json.dump(scn, f, indent=1, sort_keys=True)
        # replay in a fresh interpreter must fail the same way
        p = subprocess.run([sys.executable, '-B', os.path.abspath(__file__), pid, '--replay', path],
                           capture_output=True, text=True, timeout=600)
        if cls not in p.stdout:
            print('HARNESS-ERROR replay of %s in a fresh interpreter did not reproduce %s\n%s\n%s'
                  % (path, cls, p.stdout[-2000:], p.stderr[-2000:]))
            return EXIT_HARNESS
        if (pid, sig) in known:
            print('KNOWN-FINDING: property=%s %s %s (seen %d times; replay=%s)' % (pid, sig, known[(pid, sig)],
                                                                                   ent['count'], path))
        else:
            print('VIOLATION property=%s replay=%s' % (pid, path))
            print('  class=%s count=%d detail=%s' % (cls, ent['count'], first['detail']))
            exit_code = EXIT_VIOLATION
        reported.append({'class': cls, 'count': ent['count'], 'replay': path,
                         'known': (pid, sig) in known, 'detail': first['detail']})

    wall = time.time() - t0
    if not args.no_evidence:
        total['line_reach'] = line_reach(mod, pid, args, cells)
        write_evidence(mod, pid, args, total, wall, reported, det_msg, n_cells, done_random, stopped_early, jobs)
    print('%s %s: %d scenarios (%d sweep cells, %d random), %d distinct non-trivial classes, '
          '%.0f simulated s, %.1f s wall, violations: %d classes'
          % (pid, args.tier, total['n'], n_cells, done_random, len(total['distinct']),
             total['vtime_us'] / 1e6, wall, len([r for r in reported if not r['known']])))
    return exit_code


def line_reach(mod, pid, args, cells):
    """Reach probe on a traced sample (first scenarios of every sweep cell + the first random indices)."""
    import reach
    sample = []
    per_cell = 4 if args.tier == 'quick' else 12
    for cell in cells:
        for j, scn in enumerate(mod.sweep_expand(cell)):
            if j >= per_cell:
                break
            sample.append(scn)
    n = 120 if args.tier == 'quick' else 1500
    for idx in range(n):
        sample.append(mod.gen(scenario_rng(args.seed, pid, idx), idx))
    try:
        return reach.report(sample, getattr(mod, 'REACH_FOCUS', None))
    except Exception:
        return {'error': traceback.format_exc()[-600:]}


def replay(mod, pid, path, known):
    scn = json.load(open(path))
    viols, hist = run_scenario(mod, scn)
    bad = False
    for v in viols:
        sig = v.cls.split(':', 1)[1]
        if (pid, sig) in known:
            print('KNOWN-FINDING: property=%s %s %s' % (pid, sig, known[(pid, sig)]))
        else:
            bad = True
            print('  reproduced class=%s op=%s detail=%s' % (v.cls, v.op_id, v.detail))
    if hist is not None:
        print('  digest=%s virtual_s=%.1f io=%d' % (hist.digest, hist.vtime_us / 1e6, hist.total_io))
        for r in hist.ops:
            print('  op %s %s -> ret=%s exc=%s wire=%s reads=%d' % (
                r['id'], json.dumps({k: v for k, v in r['op'].items() if k != 'id'}),
                json.dumps(r['ret']), r['exc'], json.dumps(r['wire']), len(r['reads'])))
    if bad:
        print('VIOLATION property=%s replay=%s' % (pid, path))
        return EXIT_VIOLATION
    print('replay: no violation')
    return EXIT_OK


def write_evidence(mod, pid, args, total, wall, reported, det_msg, n_cells, done_random, stopped_early, jobs):
    from common import introspect_unregistered
    runs_per_hour = int(total['n'] / wall * 3600) if wall > 0 else 0
    cov = {
        'evaluations': total['n'],
        'distinct_nontrivial': len(total['distinct']),
        'nontrivial_runs': total['nontrivial'],
        'rule': mod.RULE,
        'samples': total['samples'][:3],
        'exhaustive': False,
        'sweep_cells': n_cells,
        'sweep_scenarios': total['extra'].get('sweep_scenarios', 0),
        'random_runs': done_random,
        'random_stopped_by_wall_cap': stopped_early,
        'ops_executed': total['ops'],
        'io_events': total['io'],
        'empty_reads_simulated': total['empty_reads'],
        'simulated_seconds': round(total['vtime_us'] / 1e6, 1),
        'runs_per_hour': runs_per_hour,
        'seeds_per_hour': runs_per_hour,
        'workers': jobs,
        'faults_fired': dict(sorted(total['fired'].items())),
        'probes': dict(sorted(total['extra'].items())),
        'reach_sets': {k: len(v) for k, v in sorted(total['sets'].items())},
        'states': len(total['sets'].get('abstract_states', ())),
        'transitions': len(total['sets'].get('abstract_transitions', ())),
        'states_transitions_measure': 'abstract object state = (port set, port open, error latched); transition = '
                                      '(state before, method or legacy function, first fault that fired or reply '
                                      'plan consumed, class of the returned value, exception class, state after)',
        'components': {
            'real': ['plotink.ebb_serial', 'plotink.ebb_motion', 'plotink.ebb3_serial', 'plotink.ebb3_motion',
                     'packaging.version', 'pyserial exception classes and ListPortInfo', 'logging'],
            'stub': ['serial.Serial -> SimSerial', 'comports() -> SimBus', 'EiBotBoard firmware -> SimBoard',
                     'foreign/silent USB devices', 'calling application -> generated op list']},
        'determinism_selftest': det_msg,
        'line_reach_traced_sample': total.get('line_reach'),
        'unregistered_methods': introspect_unregistered(),
        'violation_classes': reported,
    }
    ev = {'property_id': pid, 'tier': args.tier, 'seed': args.seed, 'level': mod.LEVEL,
          'coverage': cov, 'assumptions': mod.ASSUMPTIONS, 'wall_s': round(wall, 2),
          'violations': len([r for r in reported if not r['known']])}
    os.makedirs(os.path.join(VERIF, 'evidence'), exist_ok=True)
    path = os.path.join(VERIF, 'evidence', pid + '.json')
    tmp = path + '.tmp'
    with open(tmp, 'w') as f:
        json.dump(ev, f, indent=1, sort_keys=True, default=str)
    os.replace(tmp, path)


if __name__ == '__main__':
    try:
        rc = main()
    except SystemExit:
        raise
    except BaseException:
        print('HARNESS-ERROR ' + traceback.format_exc())
        rc = EXIT_HARNESS
    sys.exit(rc)
