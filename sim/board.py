"""
board.py - executable reference models of the peers on the simulated bus.

SimBoard is a deliberately small model of the EiBotBoard firmware: same
interface as the device (bytes in, reply lines out), trivial inside.  Only the
semantics that a given property mentions are modelled (DESIGN.md section 3.1);
everything else is acknowledged and logged verbatim.
"""

QE_CODE = {1: 16, 2: 8, 3: 4, 4: 2, 5: 1}       # EM resolution -> QE report value
NO_OK = ('A', 'I', 'MR', 'PI', 'QM', 'QG', 'V')  # legacy queries without trailing OK

EBB_VIDPID = 'USB VID:PID=04D8:FD92'


def _ints(parts):
    out = []
    for p in parts:
        p = p.strip()
        try:
            out.append(int(p))
        except ValueError:
            return None
    return out


class Device:
    kind = 'device'
    is_ebb = False

    def __init__(self, spec):
        self.spec = spec
        self.buf = bytearray()
        self.reqno = 0
        self.log = []                # [reqno, op_id, text, reply lines]
        self.rx_bytes = bytearray()  # every byte ever received (device-side invariants)

    def power_on(self):
        pass

    def feed(self, data):
        """Accumulate bytes, yield complete requests (text without terminator)."""
        self.rx_bytes.extend(data)
        out = []
        for b in data:
            if b == 13:                       # CR terminates a request
                out.append(self.buf.decode('latin-1'))
                self.buf = bytearray()
            elif b == 10 and not self.buf:    # LF directly after CR is ignored
                continue
            else:
                self.buf.append(b)
        return out

    def handle(self, text, op_id, err=None):
        self.reqno += 1
        lines = self.reply(text, err)
        self.log.append([self.reqno, op_id, text, [ln.decode('latin-1') for ln in lines]])
        return lines

    def reply(self, text, err):
        return []

    def descriptors(self, port):
        return self.spec.get('desc', 'n/a'), self.spec.get('hwid', 'n/a')

    def state(self):
        return {}


class SilentDevice(Device):
    kind = 'silent'


class ForeignDevice(Device):
    """Some other USB serial gadget: answers every line with text that never
    contains 'EBB'."""
    kind = 'foreign'

    def reply(self, text, err):
        return [self.spec.get('answer', 'ERROR: unknown command').encode('ascii') + b'\r\n']


class SimBoard(Device):
    kind = 'ebb'
    is_ebb = True

    def __init__(self, spec):
        Device.__init__(self, spec)
        self.fw = tuple(spec.get('fw', (3, 0, 2)))
        self.nick = spec.get('nick', '')
        self.style = spec.get('style', 'mac')
        self.err_ok = spec.get('err_ok', False)    # legacy: error line followed by OK?
        # legacy line endings: 'crlf' (every line CR LF), 'lf' (LF only, e.g. behind a bridge that
        # translates), 'nlcr' (data lines end LF CR as several legacy replies are documented to; a
        # line-oriented reader then sees the CR at the front of the following line)
        self.eol = spec.get('eol', 'crlf')
        self._carry_cr = False
        self.usb_name = self.nick
        self.bootloader = False
        self.power_on()
        prior = spec.get('prior') or {}
        for k, v in prior.items():
            if k == 'ram':
                for i, b in enumerate(v):
                    self.ram[i] = b
            else:
                setattr(self, k, v)

    # ------------------------------------------------------------------
    def power_on(self):
        self.syntax = 'legacy'
        self.ram = [0] * 32
        self.en1 = 0
        self.en2 = 0
        self.mode = 1
        self.auto_enable = 1
        self.steps = [0, 0]
        self.pen = 1
        self.pins = {}
        self.pin_dir = {}
        self.sc = {}
        self.sr = None
        self.sp_log = []
        self.hm_log = []
        self.moves = []
        self.paused_ms = 0
        self.motion_ms = 0
        self.toggles = 0
        self.accum_cleared = 0
        self.voltage = self.spec.get('voltage', 300)
        self.current = self.spec.get('current', 512)
        self.status = self.spec.get('status', 0x3E)
        self.usb_name = self.nick
        self.bootloader = False
        self.buf = bytearray()
        self._carry_cr = False

    def state(self):
        return {'syntax': self.syntax, 'ram': list(self.ram), 'en1': self.en1, 'en2': self.en2,
                'mode': self.mode, 'auto_enable': self.auto_enable, 'steps': list(self.steps),
                'pen': self.pen, 'nick': self.nick, 'paused_ms': self.paused_ms,
                'pins': dict(sorted(self.pins.items())), 'pin_dir': dict(sorted(self.pin_dir.items())),
                'sc': dict(sorted(self.sc.items())),
                'sr': self.sr, 'hm': list(self.hm_log), 'sp': list(self.sp_log),
                'toggles': self.toggles, 'accum_cleared': self.accum_cleared,
                'voltage': self.voltage, 'current': self.current, 'status': self.status}

    # ------------------------------------------------------------------
    def descriptors(self, port):
        name = self.usb_name
        style = self.style
        if style in ('mac', 'linux'):
            desc = 'EiBotBoard' + (',' + name if name else '')
            hwid = EBB_VIDPID + ((' SER=' + name) if name else '') + ' LOCATION=%s' % self.spec.get('loc', '20-1')
        elif style == 'win':
            desc = 'USB Serial Device (%s)' % port
            hwid = EBB_VIDPID + ((' SER=' + name) if name else '') + ' LOCATION=%s' % self.spec.get('loc', '1-2')
        elif style == 'py27':
            desc = 'USB Serial Device (%s)' % port
            hwid = EBB_VIDPID + ((' SNR=' + name) if name else '')
        elif style == 'nameonly':
            # product string present, but hwid not in the usual form
            desc = 'EiBotBoard' + (',' + name if name else '')
            hwid = 'n/a'
        else:
            raise ValueError(style)
        return desc, hwid

    # ------------------------------------------------------------------
    def _fmt(self, name, payload, ok):
        """Render a successful reply in the current syntax."""
        if self.syntax == 'future':
            if payload is None:
                return [name.encode('ascii') + b'\n']
            return [(name + ',' + payload).encode('ascii') + b'\n']
        lines = []
        if payload is not None:
            lines.append(payload.encode('ascii') + b'\r\n')
        if ok:
            lines.append(b'OK\r\n')
        return lines

    def _err(self, name, how, msg):
        if how == 'named':
            # error text that *does* start with the request's name
            line = ('%s,Err: %s' % (name, msg)).encode('ascii')
        else:
            line = ('!8 Err: %s' % msg).encode('ascii')
        if self.syntax == 'future':
            return [line + b'\n']
        out = [line + b'\r\n']
        if self.err_ok:
            out.append(b'OK\r\n')
        return out

    @staticmethod
    def split_name(text):
        t = text.strip()
        head = t.split(',', 1)[0].strip()
        return head.upper(), t.split(',')[1:]

    def handle(self, text, op_id, err=None):
        self.reqno += 1
        lines = self._eol(self.reply(text, err))
        self.log.append([self.reqno, op_id, text, [ln.decode('latin-1') for ln in lines]])
        return lines

    def _eol(self, lines):
        if self.syntax != 'legacy' or self.eol == 'crlf':
            return lines
        out = []
        for ln in lines:
            body = ln[:-2] if ln.endswith(b'\r\n') else ln.rstrip(b'\n')
            head = b'\r' if self._carry_cr else b''
            self._carry_cr = False
            if self.eol == 'lf':
                out.append(body + b'\n')
            elif body == b'OK' or b'Err:' in body:
                out.append(head + body + b'\r\n')
            else:
                out.append(head + body + b'\n')
                self._carry_cr = True
        return out

    def reply(self, text, err):
        if self.bootloader:
            return []
        name, parts = self.split_name(text)
        if err is not None:
            return self._err(name, err, 'simulated device error')
        if not name:
            return self._err(name, 'bang', 'empty command')
        h = getattr(self, 'cmd_' + name, None)
        if h is None:
            if len(name) <= 2 and name.isalnum():
                # a command this model has no semantics for: acknowledge, log verbatim
                return self._fmt(name, None, True)
            return self._err(name, 'bang', "Unknown command '%s'" % name)
        return h(name, parts)

    # -- identification ---------------------------------------------------------
    def cmd_V(self, name, parts):
        s = 'EBBv13_and_above EB Firmware Version ' + '.'.join('%d' % c for c in self.fw)
        s = self.spec.get('version_text', s)
        return self._fmt('V', s, False)

    def cmd_QT(self, name, parts):
        return self._fmt('QT', self.nick, True)

    def cmd_ST(self, name, parts):
        self.nick = ','.join(parts)[:16]
        return self._fmt('ST', None, True)

    def cmd_CU(self, name, parts):
        v = _ints(parts)
        if v is None or len(v) != 2:
            return self._err(name, 'bang', 'bad CU parameters')
        out = self._fmt('CU', None, True)
        if v[0] == 10:
            self.syntax = 'future' if v[1] else 'legacy'
            if self.spec.get('cu_reply') == 'future':
                out = self._fmt('CU', None, True)
        elif v[0] == 50:
            self.auto_enable = 1 if v[1] else 0
        return out

    def cmd_RB(self, name, parts):
        self.power_on()
        return []

    def cmd_BL(self, name, parts):
        self.bootloader = True
        return []

    def cmd_R(self, name, parts):
        return self._fmt('R', None, True)

    # -- variables --------------------------------------------------------------
    def cmd_SL(self, name, parts):
        v = _ints(parts)
        if v is None or len(v) not in (1, 2):
            return self._err(name, 'bang', 'bad SL parameters')
        idx = v[1] if len(v) == 2 else 0
        if not 0 <= v[0] <= 255 or not 0 <= idx <= 31:
            return self._err(name, 'bang', 'SL parameter outside limit')
        self.ram[idx] = v[0]
        return self._fmt('SL', None, True)

    def cmd_QL(self, name, parts):
        v = _ints(parts)
        if v is None or len(v) > 1:
            return self._err(name, 'bang', 'bad QL parameters')
        idx = v[0] if v else 0
        if not 0 <= idx <= 31:
            return self._err(name, 'bang', 'QL parameter outside limit')
        return self._fmt('QL', '%d' % self.ram[idx], True)

    # -- motors -------------------------------------------------------------------
    def cmd_EM(self, name, parts):
        v = _ints(parts)
        if v is None or len(v) not in (1, 2):
            return self._err(name, 'bang', 'bad EM parameters')
        e1 = v[0]
        if not 0 <= e1 <= 5:
            return self._err(name, 'bang', 'EM parameter outside limit')
        self.en1 = 1 if e1 else 0
        if e1:
            self.mode = e1
        if len(v) == 2:
            self.en2 = 1 if v[1] else 0
        return self._fmt('EM', None, True)

    def cmd_QE(self, name, parts):
        m = QE_CODE[self.mode]
        return self._fmt('QE', '%d,%d' % (m if self.en1 else 0, m if self.en2 else 0), True)

    def _auto(self):
        if self.auto_enable:
            self.en1 = 1
            self.en2 = 1

    def cmd_SM(self, name, parts):
        v = _ints(parts)
        if v is None or len(v) not in (2, 3):
            return self._err(name, 'bang', 'bad SM parameters')
        dur, a1 = v[0], v[1]
        a2 = v[2] if len(v) == 3 else 0
        self.moves.append(['SM', dur, a1, a2])
        self.steps[0] += a1
        self.steps[1] += a2
        self.motion_ms += dur
        if a1 == 0 and a2 == 0:
            self.paused_ms += dur
        else:
            self._auto()
        return self._fmt('SM', None, True)

    def cmd_XM(self, name, parts):
        v = _ints(parts)
        if v is None or len(v) != 3:
            return self._err(name, 'bang', 'bad XM parameters')
        dur, a, b = v
        self.moves.append(['XM', dur, a, b])
        self.steps[0] += a + b
        self.steps[1] += a - b
        self.motion_ms += dur
        self._auto()
        return self._fmt('XM', None, True)

    def cmd_HM(self, name, parts):
        v = _ints(parts)
        if v is None or len(v) not in (1, 3):
            return self._err(name, 'bang', 'bad HM parameters')
        if len(v) == 3:
            self.hm_log.append([v[0], v[1], v[2]])
            self.steps = [v[1], v[2]]
        else:
            self.hm_log.append([v[0], None, None])
            self.steps = [0, 0]
        self._auto()
        return self._fmt('HM', None, True)

    def cmd_LM(self, name, parts):
        v = _ints(parts)
        if v is None or len(v) not in (6, 7):
            return self._err(name, 'bang', 'bad LM parameters')
        self.moves.append(['LM'] + v)
        self.steps[0] += v[1]
        self.steps[1] += v[4]
        self._auto()
        return self._fmt('LM', None, True)

    def cmd_T3(self, name, parts):
        v = _ints(parts)
        if v is None:
            return self._err(name, 'bang', 'bad T3 parameters')
        self.moves.append(['T3'] + v)
        if len(v) == 8 and v[1:7] == [0] * 6 and v[7] == 3:
            self.accum_cleared += 1
        return self._fmt('T3', None, True)

    def cmd_QS(self, name, parts):
        return self._fmt('QS', '%d,%d' % tuple(self.steps), True)

    def cmd_CS(self, name, parts):
        self.steps = [0, 0]
        self.accum_cleared += 1
        return self._fmt('CS', None, True)

    # -- pen / servo ----------------------------------------------------------------
    def cmd_SP(self, name, parts):
        v = _ints(parts)
        if v is None or len(v) not in (1, 2, 3):
            return self._err(name, 'bang', 'bad SP parameters')
        self.pen = v[0]
        self.sp_log.append(v)
        return self._fmt('SP', None, True)

    def cmd_TP(self, name, parts):
        self.toggles += 1
        self.pen = 1 - self.pen
        return self._fmt('TP', None, True)

    def cmd_QP(self, name, parts):
        return self._fmt('QP', '%d' % self.pen, True)

    def cmd_SC(self, name, parts):
        v = _ints(parts)
        if v is None or len(v) != 2:
            return self._err(name, 'bang', 'bad SC parameters')
        self.sc[str(v[0])] = v[1]
        return self._fmt('SC', None, True)

    def cmd_SR(self, name, parts):
        v = _ints(parts)
        if v is None or len(v) not in (1, 2):
            return self._err(name, 'bang', 'bad SR parameters')
        self.sr = v
        return self._fmt('SR', None, True)

    # -- digital I/O --------------------------------------------------------------------
    def cmd_PO(self, name, parts):
        if len(parts) != 3:
            return self._err(name, 'bang', 'bad PO parameters')
        v = _ints(parts[1:])
        if v is None:
            return self._err(name, 'bang', 'bad PO parameters')
        self.pins['%s%d' % (parts[0].strip().upper(), v[0])] = v[1]
        return self._fmt('PO', None, True)

    def cmd_PD(self, name, parts):
        if len(parts) != 3:
            return self._err(name, 'bang', 'bad PD parameters')
        v = _ints(parts[1:])
        if v is None:
            return self._err(name, 'bang', 'bad PD parameters')
        self.pin_dir['%s%d' % (parts[0].strip().upper(), v[0])] = v[1]
        return self._fmt('PD', None, True)

    def cmd_PI(self, name, parts):
        if len(parts) != 2:
            return self._err(name, 'bang', 'bad PI parameters')
        v = _ints(parts[1:])
        if v is None:
            return self._err(name, 'bang', 'bad PI parameters')
        val = self.pins.get('%s%d' % (parts[0].strip().upper(), v[0]), 0)
        if self.syntax == 'future':
            return [('PI,%d' % val).encode('ascii') + b'\n']
        return [('PI,%d' % val).encode('ascii') + b'\r\n']

    # -- status ------------------------------------------------------------------------
    def cmd_QC(self, name, parts):
        return self._fmt('QC', '%04d,%04d' % (self.current, self.voltage), True)

    def cmd_QB(self, name, parts):
        return self._fmt('QB', '0', True)

    def cmd_QG(self, name, parts):
        return self._fmt('QG', '%02X' % self.status, False)

    def cmd_QM(self, name, parts):
        if self.syntax == 'future':
            return [b'QM,0,0,0,0\n']
        return [b'QM,0,0,0,0\r\n']

    def cmd_A(self, name, parts):
        if self.syntax == 'future':
            return [b'A,00:0713,02:0241\n']
        return [b'A,00:0713,02:0241\r\n']

    def cmd_I(self, name, parts):
        if self.syntax == 'future':
            return [b'I,017,023,000,224,003\n']
        return [b'I,017,023,000,224,003\r\n']

    def cmd_MR(self, name, parts):
        if self.syntax == 'future':
            return [b'MR,071\n']
        return [b'MR,071\r\n']


def make_device(spec):
    kind = spec.get('kind', 'ebb')
    if kind == 'ebb':
        return SimBoard(spec)
    if kind == 'foreign':
        return ForeignDevice(spec)
    if kind == 'silent':
        return SilentDevice(spec)
    raise ValueError(kind)
