#!/venv/bin/python
"""
selftest.py - large determinism proof for the simulator (DESIGN.md section 11).

For every claimed property: N random scenario indices (and every sweep scenario) are
generated, executed and judged
  (a) in one fresh interpreter with PYTHONHASHSEED=0,
  (b) split over K fresh interpreters running concurrently, each with a different
      PYTHONHASHSEED, K in {5, 16},
and the per-scenario digests (scenario JSON + event-log SHA-256 + violation classes)
must be identical position by position.  Exit 0 iff all agree.

  selftest.py [--n 2000] [--seed 0] [PROP ...]
"""
import argparse
import concurrent.futures
import json
import os
import subprocess
import sys
import time

HERE = os.path.dirname(os.path.abspath(__file__))
PY = sys.executable
ALL = ['C04', 'C05', 'C06', 'C07', 'C15', 'C16', 'C19']


def digests(pid, seed, flag, a, b, hashseed):
    env = dict(os.environ, PYTHONHASHSEED=str(hashseed), PYTHONDONTWRITEBYTECODE='1')
    p = subprocess.run([PY, '-B', os.path.join(HERE, 'check.py'), pid, '--seed', str(seed), flag, '%d:%d' % (a, b)],
                       env=env, capture_output=True, text=True, timeout=3600)
    if p.returncode != 0:
        raise RuntimeError('%s %s %d:%d failed: %s' % (pid, flag, a, b, p.stderr[-500:]))
    return json.loads(p.stdout.strip().splitlines()[-1])


def split(n, k):
    step = (n + k - 1) // k
    return [(a, min(n, a + step)) for a in range(0, n, step)]


def main():
    ap = argparse.ArgumentParser()
    ap.add_argument('props', nargs='*')
    ap.add_argument('--n', type=int, default=2000)
    ap.add_argument('--seed', type=int, default=0)
    args = ap.parse_args()
    props = [p.upper() for p in args.props] or ALL
    bad = 0
    sys.path.insert(0, HERE)
    import importlib
    for pid in props:
        t0 = time.time()
        mod = importlib.import_module('props.' + pid.lower())
        ncells = len(mod.sweep_cells('quick'))
        with concurrent.futures.ThreadPoolExecutor(max_workers=16) as ex:
            ref = ex.submit(digests, pid, args.seed, '--digest-range', 0, args.n, 0)
            refs = ex.submit(digests, pid, args.seed, '--digest-sweep', 0, ncells, 0)
            parts = {}
            for k in (5, 16):
                parts[k] = [ex.submit(digests, pid, args.seed, '--digest-range', a, b, 1000 * k + i + 1)
                            for i, (a, b) in enumerate(split(args.n, k))]
            sparts = [ex.submit(digests, pid, args.seed, '--digest-sweep', a, b, 7000 + i)
                      for i, (a, b) in enumerate(split(ncells, 7))]
            ref = ref.result()
            refs = refs.result()
            ok = True
            for k, futs in parts.items():
                got = [d for f in futs for d in f.result()]
                if got != ref:
                    ok = False
                    diff = [i for i, (x, y) in enumerate(zip(ref, got)) if x != y][:5]
                    print('%s: random digests differ with %d processes at indices %r' % (pid, k, diff))
            gots = [d for f in sparts for d in f.result()]
            if gots != refs:
                ok = False
                print('%s: sweep digests differ' % pid)
        print('%s determinism: %s  (%d random indices x {1 process hashseed 0; 5 and 16 concurrent processes, '
              'distinct hash seeds}; %d sweep scenarios x {1; 7 processes}; distinct digests %d; %.0f s)'
              % (pid, 'OK' if ok else 'MISMATCH', args.n, len(refs), len(set(ref)), time.time() - t0))
        sys.stdout.flush()
        if not ok:
            bad += 1
    return 1 if bad else 0


if __name__ == '__main__':
    sys.exit(main())
