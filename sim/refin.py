#!/venv/bin/python
"""
refin.py - take a behaviour-preserving refactoring written by an independent sub-agent, run the baseline
tests and ALL seven quick checks against a scratch copy of /repo with it applied, and file it under
/verif/refactors/<ID>/ (patch.diff, notes.md, meta.json).  A refactoring that keeps the property must stay
green; a red result is triaged by hand (either the refactoring does break the property, or a check demands
more than its property states and is corrected).

  refin.py SRC_DIR ID
"""
import json
import os
import shutil
import subprocess
import sys
import tempfile

HERE = os.path.dirname(os.path.abspath(__file__))
VERIF = os.path.dirname(HERE)
PY = sys.executable
ALL = ['C04', 'C05', 'C06', 'C07', 'C15', 'C16', 'C19']


def main():
    src, rid = os.path.abspath(sys.argv[1]), sys.argv[2]
    d = tempfile.mkdtemp(prefix='plotink-ref-')
    try:
        subprocess.run(['rsync', '-a', '--exclude', '.git', '--exclude', '__pycache__', '--exclude', '*.egg-info',
                        '/repo/', d + '/'], check=True)
        a = subprocess.run(['patch', '-p1', '-s', '-d', d, '-i', os.path.join(src, 'patch.diff')],
                           capture_output=True, text=True)
        if a.returncode != 0:
            print('REJECTED %s: patch does not apply: %s' % (rid, a.stdout + a.stderr))
            return 2
        t = subprocess.run([PY, '-m', 'pytest', '-q', '-p', 'no:cacheprovider'], cwd=d, capture_output=True, text=True,
                           env=dict(os.environ, PYTHONDONTWRITEBYTECODE='1'))
        tail = t.stdout.strip().splitlines()[-1] if t.stdout.strip() else ''
        meta = {'id': rid, 'baseline_tests_with_change': tail, 'checks': {}}
        env = dict(os.environ, PLOTINK_REPO=d, VERIF_REPLAY_DIR=os.path.join(d, '_replays'))
        for pid in ALL:
            c = subprocess.run([PY, '-B', os.path.join(HERE, 'check.py'), pid, '--tier', 'quick', '--no-evidence'],
                               capture_output=True, text=True, env=env)
            det = [ln.strip() for ln in c.stdout.splitlines() if 'class=' in ln]
            meta['checks'][pid] = {'exit': c.returncode, 'violations': det[:8]}
            if c.returncode not in (0, 1):
                meta['checks'][pid]['tail'] = c.stdout[-600:]
        red = [p for p, c in meta['checks'].items() if c['exit'] != 0]
        meta['red'] = red
        dst = os.path.join(VERIF, 'refactors', rid)
        os.makedirs(dst, exist_ok=True)
        for f in ('patch.diff', 'notes.md'):
            if os.path.exists(os.path.join(src, f)) and os.path.abspath(src) != os.path.abspath(dst):
                shutil.copy(os.path.join(src, f), os.path.join(dst, f))
        old = {}
        if os.path.exists(os.path.join(dst, 'meta.json')):
            old = json.load(open(os.path.join(dst, 'meta.json')))
        for k in ('first_run_red', 'triage'):
            if k in old:
                meta[k] = old[k]
        meta.setdefault('first_run_red', red)
        with open(os.path.join(dst, 'meta.json'), 'w') as f:
            json.dump(meta, f, indent=1, sort_keys=True)
        print('%s %s tests=%s red=%s' % ('GREEN' if not red else 'RED', rid, tail, red))
        for p in red:
            for v in meta['checks'][p]['violations'][:4]:
                print('      %s %s' % (p, v[:260]))
            if 'tail' in meta['checks'][p]:
                print('      %s tail: %s' % (p, meta['checks'][p]['tail'][-300:]))
        return 0
    finally:
        shutil.rmtree(d, ignore_errors=True)


if __name__ == '__main__':
    sys.exit(main())
