#!/venv/bin/python
"""
seedin.py - take a seeded change produced by an independent sub-agent, confirm it, file it.

  seedin.py SRC_DIR ID PROP [--needs TEXT] [--every]

SRC_DIR holds patch.diff, demo.py and notes.md.  Confirmation, all in scratch copies of
/repo outside /repo and /verif (removed afterwards):
  1. demo.py exits 0 on the clean tree,
  2. the patch applies; the 33 baseline tests pass with it,
  3. demo.py exits 1 with it,
  4. the quick check of PROP (all seven with --every) is run against the patched copy.
The change is filed as /verif/seeded/<ID>/{patch.diff, demo.py, notes.md, meta.json}
whatever step 4 says (a miss is recorded as a miss); it is NOT filed when 1-3 fail.
"""
import argparse
import json
import os
import shutil
import subprocess
import sys
import tempfile

HERE = os.path.dirname(os.path.abspath(__file__))
VERIF = os.path.dirname(HERE)
PY = sys.executable
ALL = ['C04', 'C05', 'C06', 'C07', 'C15', 'C16', 'C19']


def copy_repo():
    d = tempfile.mkdtemp(prefix='plotink-seed-')
    subprocess.run(['rsync', '-a', '--exclude', '.git', '--exclude', '__pycache__', '--exclude', '*.egg-info',
                    '/repo/', d + '/'], check=True)
    return d


def demo(src, root):
    p = subprocess.run([PY, '-B', os.path.join(src, 'demo.py'), root], capture_output=True, text=True, cwd=root,
                       env=dict(os.environ, PYTHONDONTWRITEBYTECODE='1'), timeout=600)
    return p.returncode, (p.stdout + p.stderr)[-600:]


def main():
    ap = argparse.ArgumentParser()
    ap.add_argument('src')
    ap.add_argument('id')
    ap.add_argument('prop')
    ap.add_argument('--needs', default='')
    ap.add_argument('--every', action='store_true')
    ap.add_argument('--note', default='')
    ap.add_argument('--extra-props', default='', help='comma list of further properties the change also breaks')
    ap.add_argument('--tier', default='quick')
    args = ap.parse_args()
    src = os.path.abspath(args.src)
    meta = {'id': args.id, 'props': [args.prop.upper()] + [p for p in args.extra_props.upper().split(',') if p],
            'needs': args.needs, 'ran': []}
    if args.note:
        meta['note'] = args.note
    clean = copy_repo()
    mut = copy_repo()
    try:
        rc, out = demo(src, clean)
        meta['demo_on_clean_tree_exit'] = rc
        meta['ran'].append('demo.py <clean copy of /repo> -> exit %d' % rc)
        a = subprocess.run(['git', 'apply', '--directory', os.path.relpath(mut, '/'), '--unsafe-paths',
                            os.path.join(src, 'patch.diff')], capture_output=True, text=True, cwd='/')
        if a.returncode != 0:
            a = subprocess.run(['patch', '-p1', '-s', '-d', mut, '-i', os.path.join(src, 'patch.diff')],
                               capture_output=True, text=True)
        if a.returncode != 0:
            print('REJECTED %s: patch does not apply: %s' % (args.id, a.stdout + a.stderr))
            return 2
        t = subprocess.run([PY, '-m', 'pytest', '-q', '-p', 'no:cacheprovider'], cwd=mut, capture_output=True,
                           text=True, env=dict(os.environ, PYTHONDONTWRITEBYTECODE='1'))
        tail = t.stdout.strip().splitlines()[-1] if t.stdout.strip() else ''
        meta['baseline_tests_with_change'] = tail
        meta['ran'].append('pytest -q in patched copy -> %s' % tail)
        rc2, out2 = demo(src, mut)
        meta['demo_with_change_exit'] = rc2
        meta['demo_with_change_output'] = out2[-400:]
        meta['ran'].append('demo.py <patched copy> -> exit %d' % rc2)
        if rc != 0 or rc2 == 0 or t.returncode != 0 or '33 passed' not in tail:
            print('REJECTED %s: clean demo exit %d, patched demo exit %d, tests: %s\n%s' % (args.id, rc, rc2, tail, out))
            return 2
        props = ALL if args.every else [args.prop.upper()]
        env = dict(os.environ, PLOTINK_REPO=mut, VERIF_REPLAY_DIR=os.path.join(mut, '_replays'))
        meta['checks'] = {}
        for pid in props:
            c = subprocess.run([PY, '-B', os.path.join(HERE, 'check.py'), pid, '--tier', args.tier, '--no-evidence'],
                               capture_output=True, text=True, env=env)
            classes = [ln.split('class=')[1].split()[0] for ln in c.stdout.splitlines() if 'class=' in ln]
            meta['checks'][pid] = {'exit': c.returncode, 'classes': classes[:10]}
            meta['ran'].append('check.py %s --tier %s against patched copy -> exit %d %s'
                               % (pid, args.tier, c.returncode, ','.join(classes[:4])))
            if c.returncode not in (0, 1):
                meta['checks'][pid]['tail'] = c.stdout[-500:]
        caught = [p for p, c in meta['checks'].items() if c['exit'] == 1]
        meta['caught_by'] = caught
        dst = os.path.join(VERIF, 'seeded', args.id)
        os.makedirs(dst, exist_ok=True)
        for f in ('patch.diff', 'demo.py', 'notes.md'):
            if os.path.exists(os.path.join(src, f)) and os.path.abspath(src) != os.path.abspath(dst):
                shutil.copy(os.path.join(src, f), os.path.join(dst, f))
        with open(os.path.join(dst, 'meta.json'), 'w') as f:
            json.dump(meta, f, indent=1, sort_keys=True)
        print('%s %s caught_by=%s %s' % ('CAUGHT' if args.prop.upper() in caught else 'MISSED', args.id, caught,
                                         {p: c['classes'][:3] for p, c in meta['checks'].items() if c['classes']}))
        return 0
    finally:
        shutil.rmtree(clean, ignore_errors=True)
        shutil.rmtree(mut, ignore_errors=True)


if __name__ == '__main__':
    sys.exit(main())
