"""
run.py - execute one scenario against the real plotink code inside a World.

execute(scn) is a pure function of the scenario (plain JSON data) and the code
under /repo: no random numbers, no real clock, no real I/O.
"""

import logging
import os
import sys

REPO = os.environ.get('PLOTINK_REPO', '/repo')


def bootstrap():
    """Make `plotink` resolve to the working tree under /repo, never write or use
    stale byte code, silence the library's logging."""
    sys.dont_write_bytecode = True
    if sys.pycache_prefix is None:
        import tempfile
        sys.pycache_prefix = os.path.join(tempfile.gettempdir(), 'plotink-sim-nopyc-%d' % os.getpid())
    here = os.path.dirname(os.path.abspath(__file__))
    if here not in sys.path:
        sys.path.insert(0, here)
    if sys.path[0] != REPO:
        sys.path.insert(0, REPO)
    import plotink
    got = os.path.dirname(os.path.dirname(os.path.abspath(plotink.__file__)))
    if os.path.realpath(got) != os.path.realpath(REPO):
        raise RuntimeError("plotink resolves to %s, not %s" % (got, REPO))
    lg = logging.getLogger('plotink')
    lg.addHandler(logging.NullHandler())
    lg.propagate = False
    lg.setLevel(logging.CRITICAL + 1)


bootstrap()

from world import World, Seams, SimHang, SimSerial, HarnessError   # noqa: E402
from plotink import ebb_serial, ebb_motion, ebb3_serial, ebb3_motion  # noqa: E402

MODULES = {'ebb_serial': ebb_serial, 'ebb_motion': ebb_motion,
           'ebb3_serial': ebb3_serial, 'ebb3_motion': ebb3_motion}


# ---------------------------------------------------------------------------
# isolation between scenarios: the code under test must start every scenario from the state it has
# right after import.  Module-level variables, class-level attributes, mutable default arguments and
# memoising caches (a refactor may add any of them) would otherwise carry facts from one scenario into
# the next and make a run depend on its worker's past - which breaks replay.  Inside one scenario such
# state persists, exactly as it would inside one host program.

import copy as _copy
import types as _types

_PRISTINE = {}
_CONTAINERS = (dict, list, set, bytearray)


def _is_data(v):
    return not (isinstance(v, (_types.ModuleType, type)) or callable(v) or
                isinstance(v, (property, staticmethod, classmethod)))


def _snap_ns(ns):
    data, funcs = {}, []
    for k, v in list(ns.items()):
        if k.startswith('__') and k.endswith('__'):
            continue
        if _is_data(v):
            try:
                data[k] = (v, _copy.deepcopy(v) if isinstance(v, _CONTAINERS) else v)
            except Exception:
                data[k] = (v, v)
        f = v.__func__ if isinstance(v, (staticmethod, classmethod)) else v
        if isinstance(f, _types.FunctionType):
            funcs.append((f, _copy.deepcopy(f.__defaults__), _copy.deepcopy(f.__kwdefaults__)))
    return set(ns), data, funcs


def _snapshot_modules():
    for name, mod in MODULES.items():
        classes = [v for v in vars(mod).values() if isinstance(v, type) and v.__module__ == mod.__name__]
        _PRISTINE[name] = (_snap_ns(vars(mod)), [(c, _snap_ns(vars(c))) for c in classes])


def _restore(owner, ns, snap, is_class):
    names, data, funcs = snap
    for k in [k for k in list(ns) if k not in names and not (k.startswith('__') and k.endswith('__'))]:
        if is_class:
            delattr(owner, k)
        else:
            del ns[k]
    for k, (obj, orig) in data.items():
        cur = ns.get(k, None)
        if isinstance(obj, _CONTAINERS):
            if obj != orig:
                fresh = _copy.deepcopy(orig)
                if isinstance(obj, dict):
                    obj.clear()
                    obj.update(fresh)
                elif isinstance(obj, set):
                    obj.clear()
                    obj.update(fresh)
                else:
                    obj[:] = fresh
            if cur is not obj:
                setattr(owner, k, obj)
        else:
            if hasattr(obj, 'clear') and hasattr(obj, '__len__') and not isinstance(obj, (str, bytes, tuple)):
                try:
                    obj.clear()               # e.g. a WeakKeyDictionary that was empty at import
                except Exception:
                    pass
            if cur is not obj:
                setattr(owner, k, obj)
    for f, d, kd in funcs:
        if f.__defaults__ != d:
            f.__defaults__ = _copy.deepcopy(d)
        if f.__kwdefaults__ != kd:
            f.__kwdefaults__ = _copy.deepcopy(kd)
    for v in list(ns.values()):
        cc = getattr(v, 'cache_clear', None)
        if callable(cc):
            try:
                cc()
            except Exception:
                pass


def reset_module_state():
    for name, mod in MODULES.items():
        msnap, classes = _PRISTINE[name]
        _restore(mod, vars(mod), msnap, False)
        for c, csnap in classes:
            _restore(c, vars(c), csnap, True)


_snapshot_modules()


def enc(v, depth=0):
    """Encode a Python value returned by the code under test as JSON data."""
    if v is None or isinstance(v, (bool, int, str)):
        return v
    if isinstance(v, float):
        return {'float': repr(v)}
    if isinstance(v, (bytes, bytearray)):
        return {'bytes': bytes(v).decode('latin-1')}
    if isinstance(v, tuple):
        return {'tuple': [enc(x, depth + 1) for x in v]}
    if isinstance(v, list):
        return {'list': [enc(x, depth + 1) for x in v]}
    if isinstance(v, SimSerial):
        return {'port': v.port, 'open': v.is_open, 'hid': v.id}
    if hasattr(v, 'device') and hasattr(v, 'hwid'):
        return {'portinfo': [v[0], v[1], v[2]]}
    return {'obj': type(v).__name__}


def recase(s, how):
    if how == 'upper':
        return s.upper()
    if how == 'lower':
        return s.lower()
    if how == 'swap':
        return s.swapcase()
    return s


def dec_arg(a, slots):
    """Decode a JSON argument: {'slot': k} refers to a legacy port object,
    {'ret_of': op id, 'item': k, 'case': how} to (an item of) an earlier op's return value."""
    if isinstance(a, dict):
        if 'slot' in a:
            return slots.get(a['slot'])
        if 'float' in a:
            return float(a['float'])
        if 'ret_of' in a:
            r = slots.get(('raw', a['ret_of']))
            if 'item' in a:
                if not isinstance(r, (list, tuple)) or not 0 <= a['item'] < len(r):
                    return None
                r = r[a['item']]
            if isinstance(r, str):
                return recase(r, a.get('case'))
            return None
    return a


class History:
    def __init__(self):
        self.ops = []           # per-op records
        self.monitors = []
        self.digest = None
        self.fired = None
        self.vtime_us = 0
        self.total_io = 0
        self.empty_reads = 0
        self.hang = None
        self.devices = []       # final device states/logs


def obj_snapshot(obj):
    if obj is None:
        return None
    port = getattr(obj, 'port', None)
    return {'err': getattr(obj, 'err', None),
            'port': None if port is None else (port.port if isinstance(port, SimSerial) else repr(type(port))),
            'port_open': bool(port is not None and getattr(port, 'is_open', False)),
            'hid': port.id if isinstance(port, SimSerial) else None,
            'name': getattr(obj, 'name', None),
            'version': getattr(obj, 'version', None),
            'port_name': getattr(obj, 'port_name', None)}


HEADROOM = 950      # Python frames available to the code under test, whatever the harness's own stack depth


def execute(scn, want_events=False):
    """Run the scenario.  Returns a History."""
    # the depth of the caller's stack (fork pool worker, replay, self-test, tracer) must not decide whether
    # deeply recursive code under test hits the recursion limit: give it the same headroom everywhere
    depth, f = 0, sys._getframe()
    while f is not None:
        depth += 1
        f = f.f_back
    old_limit = sys.getrecursionlimit()
    sys.setrecursionlimit(depth + HEADROOM)
    try:
        return _execute(scn, want_events)
    finally:
        sys.setrecursionlimit(old_limit)


def _execute(scn, want_events=False):
    reset_module_state()
    world = World(scn)
    hist = History()
    objs = world.objects            # EBB3-layer objects by index
    slots = {}                      # legacy port objects by slot number
    with Seams(world):
        try:
            for op in scn['ops']:
                rec = {'id': op['id'], 'op': op, 'ret': None, 'exc': None, 'exc_msg': None,
                       'io': [], 'wire': {}, 'writes': [], 'write_owner': [], 'reads': [], 'trace': [],
                       'requests': [], 'faults_fired': [], 'opened': [], 'open_attempts': [], 'closed': [], 'enums': 0,
                       't0': world.now, 'before': None, 'after': None}
                hist.ops.append(rec)
                kind = op['op']
                world.begin_op(op['id'], rec)
                try:
                    if kind == 'new':
                        k = op['obj']
                        while len(objs) <= k:
                            objs.append(None)
                        cls = ebb3_motion.EBBMotionWrap if op.get('cls', 'EBBMotionWrap') == 'EBBMotionWrap' \
                            else ebb3_serial.EBB3
                        objs[k] = cls()
                        if op.get('min_version'):
                            # an application that insists on a newer firmware than the library's own minimum
                            objs[k].MIN_VERSION_STRING = op['min_version']
                        rec['after'] = obj_snapshot(objs[k])
                    elif kind == 'call':
                        obj = objs[op['obj']]
                        rec['before'] = obj_snapshot(obj)
                        fn = getattr(obj, op['m'])
                        args = [dec_arg(a, slots) for a in op.get('a', [])]
                        kw = {k: dec_arg(v, slots) for k, v in op.get('k', {}).items()}
                        rec['args_resolved'] = [enc(x) for x in args]
                        try:
                            r = fn(*args, **kw)
                            slots[('raw', op['id'])] = r
                            rec['ret'] = enc(r)
                        except SimHang:
                            raise
                        except Exception as e:       # the code under test raised
                            rec['exc'] = type(e).__name__
                            rec['exc_msg'] = str(e)[:200]
                        rec['after'] = obj_snapshot(obj)
                    elif kind == 'lcall':
                        mod, fname = op['f'].split('.')
                        fn = getattr(MODULES[mod], fname)
                        args = [dec_arg(a, slots) for a in op.get('a', [])]
                        kw = {k: dec_arg(v, slots) for k, v in op.get('k', {}).items()}
                        rec['args_resolved'] = [enc(x) for x in args]
                        try:
                            r = fn(*args, **kw)
                            slots[('raw', op['id'])] = r
                            if 'store' in op:
                                slots[op['store']] = r if isinstance(r, SimSerial) else None
                            rec['ret'] = enc(r)
                        except SimHang:
                            raise
                        except Exception as e:
                            rec['exc'] = type(e).__name__
                            rec['exc_msg'] = str(e)[:200]
                    elif kind == 'lopen':
                        # harness-side open of a legacy port (not code under test)
                        h = SimSerial(op['port'], timeout=op.get('timeout', 1.0))
                        slots[op['slot']] = h
                        link = h.link
                        if op.get('flush', True):
                            link.rx.clear()
                        rec['ret'] = enc(h)
                    elif kind == 'env':
                        what = op['what']
                        if what == 'unplug':
                            world.unplug(world.link_by_port(op['port']))
                        elif what == 'replug':
                            world.replug(world.link_by_port(op['port']))
                        elif what == 'power_cycle':
                            ln = world.link_by_port(op['port'])
                            ln.device.power_on()
                            ln.rx.clear()
                        elif what == 'idle':
                            world.now += int(op['seconds'] * 1000000)      # nothing happens for a while
                        elif what == 'rename':
                            # the board was given another nickname and re-enumerated: its USB descriptors change
                            dev = world.link_by_port(op['port']).device
                            if hasattr(dev, 'usb_name'):
                                dev.nick = op['nick']
                                dev.usb_name = op['nick']
                        elif what == 'replace_device':
                            # another device now answers on this port name (board swapped while
                            # nothing holds the port open; port names are reused by the OS)
                            world.replace_device(world.link_by_port(op['port']), op['spec'])
                        elif what == 'reorder':
                            order = op['order']
                            world.links = [world.links[i] for i in order]
                        elif what == 'bus_raises':
                            world.bus_raises = bool(op['on'])
                        elif what == 'open_fails':
                            world.link_by_port(op['port']).open_fails = bool(op['on'])
                        elif what == 'quiesce':
                            # let every in-flight line land, then drop it (a host that
                            # waited and flushed); used between phases of a history
                            for ln in world.links:
                                if ln.rx:
                                    world.now = max(world.now, ln.rx[-1][0])
                                    if op.get('flush', True):
                                        ln.rx.clear()
                        elif what == 'set':
                            dev = world.link_by_port(op['port']).device
                            for k, v in op['state'].items():
                                if k == 'ram':
                                    for i, b in enumerate(v):
                                        dev.ram[i] = b
                                else:
                                    setattr(dev, k, v)
                        else:
                            raise HarnessError("unknown env op %r" % what)
                    else:
                        raise HarnessError("unknown op kind %r" % kind)
                finally:
                    rec['t1'] = world.now
                    rec['n_io'] = world.io_ord
                    rec['n_req'] = world.req_ord
                    rec['wire'] = {p: bytes(b).decode('latin-1') for p, b in rec['wire'].items()}
                    rec['pending'] = {ln.port: len(ln.rx) for ln in world.links if ln.rx}
                    rec['dev'] = [ln.device.state() for ln in world.links] if scn.get('snap_dev', True) else None
                    rec['objs'] = [obj_snapshot(o) for o in objs]
                    world.end_op()
        except SimHang as e:
            hist.hang = str(e)
    hist.monitors = world.monitors
    hist.digest = world.digest()
    hist.fired = dict(world.fired)
    hist.vtime_us = world.now
    hist.total_io = world.total_io
    hist.empty_reads = world.empty_reads
    hist.devices = [{'port': ln.port, 'kind': ln.device.kind, 'log': ln.device.log,
                     'rx': bytes(ln.device.rx_bytes).decode('latin-1'),
                     'state': ln.device.state(), 'plugged': ln.plugged,
                     'held': ln.handle is not None and ln.handle.is_open} for ln in world.links]
    hist.all_devices = [{'port': port, 'spec': spec, 'kind': dev.kind, 'log': dev.log,
                         'rx': bytes(dev.rx_bytes).decode('latin-1')} for port, spec, dev in world.incarnations]
    hist.handles = [{'hid': h.id, 'port': h.port, 'open': h.is_open, 'closed_calls': h.closed_calls}
                    for h in world.handles]
    if want_events:
        hist.events = world.events
    return hist
