"""
minimise.py - class-preserving delta debugging of a failing scenario.

A candidate is kept only if executing it yields a violation of the *same class*
(property, check, method).  Because execution is a pure function of the scenario
and faults are addressed by op id (not by position), removing an op or a fault
never shifts any other choice.
"""

import copy
import signal


def _fails(mod, scn, cls):
    import run
    from world import HarnessError

    def _alarm(s, f):
        raise TimeoutError()
    signal.signal(signal.SIGALRM, _alarm)
    signal.alarm(20)
    try:
        hist = run.execute(scn)
        viols = mod.check(scn, hist)
    except Exception:
        # the candidate is not a well-formed scenario any more (e.g. an op lost the op it depends on)
        return False
    finally:
        signal.alarm(0)
    return any(v.cls == cls for v in viols)


def _ddmin(items, test):
    """Classic ddmin on a list; test(sublist) -> still failing?"""
    n = 2
    while len(items) >= 2:
        size = max(1, len(items) // n)
        chunks = [items[i:i + size] for i in range(0, len(items), size)]
        reduced = False
        for i in range(len(chunks)):
            rest = [x for j, c in enumerate(chunks) if j != i for x in c]
            if test(rest):
                items = rest
                n = max(n - 1, 2)
                reduced = True
                break
        if not reduced:
            if size == 1:
                break
            n = min(len(items), n * 2)
    if len(items) == 1 and test([]):
        return []
    return items


def _simpler_values(v):
    if isinstance(v, bool) or v is None:
        return []
    if isinstance(v, int):
        out = []
        for c in (0, 1, -1, 2, v // 2, v // 10):
            if c != v and abs(c) < abs(v) and c not in out:
                out.append(c)
        return out
    if isinstance(v, str):
        out = []
        s = v.strip()
        if s != v:
            out.append(s)
        if len(v) > 3:
            out.append(v[:len(v) // 2])
        return out
    return []


def minimise(mod, scn, cls, budget=400):
    scn = copy.deepcopy(scn)
    if not _fails(mod, scn, cls):
        return scn
    calls = [0]

    def with_ops(ops):
        s = dict(scn)
        s['ops'] = ops
        return s

    def test_ops(ops):
        calls[0] += 1
        if calls[0] > budget:
            return False
        return _fails(mod, with_ops(ops), cls)

    scn['ops'] = _ddmin(scn['ops'], test_ops)

    # faults
    for key in ('io', 'reply'):
        fl = list(scn.get('faults', {}).get(key, []))
        if not fl:
            continue

        def test_faults(sub, key=key):
            calls[0] += 1
            if calls[0] > budget:
                return False
            s = dict(scn)
            s['faults'] = dict(scn.get('faults', {}))
            s['faults'][key] = sub
            return _fails(mod, s, cls)

        fl = _ddmin(fl, test_faults)
        scn['faults'] = dict(scn.get('faults', {}))
        scn['faults'][key] = fl

    # devices not needed
    boards = scn['world']['boards']
    if len(boards) > 1:
        def test_boards(sub):
            calls[0] += 1
            if calls[0] > budget or not sub:
                return False
            s = copy.deepcopy(scn)
            s['world']['boards'] = sub
            return _fails(mod, s, cls)
        scn['world']['boards'] = _ddmin(list(boards), test_boards)

    # argument simplification
    changed = True
    while changed and calls[0] <= budget:
        changed = False
        for oi, op in enumerate(scn['ops']):
            args = op.get('a')
            if not args:
                continue
            for ai, a in enumerate(args):
                for cand in _simpler_values(a):
                    s = copy.deepcopy(scn)
                    s['ops'][oi]['a'][ai] = cand
                    calls[0] += 1
                    if calls[0] > budget:
                        break
                    if _fails(mod, s, cls):
                        scn = s
                        changed = True
                        break
    # delays towards 0
    for fi, f in enumerate(scn.get('faults', {}).get('reply', [])):
        if 'delay' in f:
            for j, d in enumerate(f['delay']):
                for cand in (0, 1):
                    if cand < d:
                        s = copy.deepcopy(scn)
                        s['faults']['reply'][fi]['delay'][j] = cand
                        calls[0] += 1
                        if calls[0] <= budget and _fails(mod, s, cls):
                            scn = s
                            break
    scn['minimised'] = {'executions': calls[0]}
    return scn
