#!/bin/sh
# run every quick check on the unchanged tree (do this before every commit that touches sim/)
rc=0
for p in C04 C05 C06 C07 C15 C16 C19; do
  /venv/bin/python -B "$(dirname "$0")/check.py" $p --tier quick "$@" | tail -1 || rc=1
done
exit $rc
