"""setup_cmd: verify, offline, that /venv can run the simulator against /repo's working tree."""
import importlib
import os
import sys

sys.dont_write_bytecode = True
HERE = os.path.dirname(os.path.abspath(__file__))
sys.path.insert(0, HERE)
for name in ('serial', 'serial.tools.list_ports', 'packaging.version', 'mpmath', 'ink_extensions'):
    importlib.import_module(name)
import run  # noqa: E402  (asserts that plotink resolves to /repo)
import serial  # noqa: E402
assert serial.__version__.startswith('3'), serial.__version__
for p in ('c04', 'c05', 'c06', 'c07', 'c15', 'c16', 'c19'):
    if os.path.exists(os.path.join(HERE, 'props', p + '.py')):
        importlib.import_module('props.' + p)
print('setup ok: plotink from', os.path.dirname(run.ebb_serial.__file__), 'pyserial', serial.__version__)
